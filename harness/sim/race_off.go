//go:build verif && !race

package sim

// RaceEnabled reports whether the binary was built with the race detector.
const RaceEnabled = false

// RaceErrors returns the number of data races reported so far in this process.
func RaceErrors() int { return 0 }
