//go:build verif

package sim

import (
	"encoding/json"
	"hash/fnv"
	"os"
	"sort"
)

// Stats accumulates what one worker process actually explored. It is written
// to $VERIF_STATS_OUT when the process ends and merged by the orchestrator.
type Stats struct {
	Runs      int64            `json:"runs"`
	Cases     int64            `json:"cases"`
	Decisions int64            `json:"decisions"`
	Forced    int64            `json:"forced"`
	Switches  int64            `json:"switches"`
	Points    map[string]int64 `json:"points"`
	Faults    map[string]int64 `json:"faults"`
	Probes    map[string]int64 `json:"probes"`
	Traces    []uint64         `json:"traces"`
	States    []uint64         `json:"states"`
	CaseKeys  []uint64         `json:"case_keys"`
	Nontriv   []uint64         `json:"nontrivial_keys"`
	Samples   []any            `json:"samples"`
	RSteps    int64            `json:"r_steps"`

	traces map[uint64]struct{}
	states map[uint64]struct{}
	cases  map[uint64]struct{}
	nontr  map[uint64]struct{}
}

var stats = &Stats{
	Points: map[string]int64{},
	Faults: map[string]int64{},
	Probes: map[string]int64{},
	traces: map[uint64]struct{}{},
	states: map[uint64]struct{}{},
	cases:  map[uint64]struct{}{},
	nontr:  map[uint64]struct{}{},
}

// S returns the process-wide statistics.
func S() *Stats { return stats }

func h64(s string) uint64 {
	f := fnv.New64a()
	f.Write([]byte(s))
	return f.Sum64()
}

func (s *Stats) point(p string)           { s.Points[p]++ }
func (s *Stats) state(k string)           { s.states[h64(k)] = struct{}{} }
func (s *Stats) trace(h uint64)           { s.traces[h] = struct{}{} }
func (s *Stats) Fault(k string)           { s.Faults[k]++ }
func (s *Stats) Probe(k string)           { s.Probes[k]++ }
func (s *Stats) ProbeN(k string, n int64) { s.Probes[k] += n }

// Case records one executed case: key identifies the case (workload + plan +
// trace), nontrivial says whether it counts by the property's stated rule.
func (s *Stats) Case(key string, nontrivial bool) {
	s.Cases++
	h := h64(key)
	s.cases[h] = struct{}{}
	if nontrivial {
		s.nontr[h] = struct{}{}
	}
}

// Sample keeps up to n written-out cases.
func (s *Stats) Sample(v any, n int) {
	if len(s.Samples) < n {
		s.Samples = append(s.Samples, v)
	}
}

func keys(m map[uint64]struct{}) []uint64 {
	out := make([]uint64, 0, len(m))
	for k := range m {
		out = append(out, k)
	}
	sort.Slice(out, func(i, j int) bool { return out[i] < out[j] })
	return out
}

// Flush writes the statistics to $VERIF_STATS_OUT (if set).
func (s *Stats) Flush() {
	path := os.Getenv("VERIF_STATS_OUT")
	if path == "" {
		return
	}
	s.Traces = keys(s.traces)
	s.States = keys(s.states)
	s.CaseKeys = keys(s.cases)
	s.Nontriv = keys(s.nontr)
	data, err := json.Marshal(s)
	if err != nil {
		return
	}
	_ = os.WriteFile(path+".tmp", data, 0o644)
	_ = os.Rename(path+".tmp", path)
}
