//go:build verif

package sim

import (
	"fmt"
	"runtime"
	"sort"
	"strings"
	"sync"

	"github.com/bufbuild/protocompile/verifhooks"
	"github.com/petermattis/goid"
)

// Engine R ("hbfree"): a serialising scheduler for workload goroutines whose
// hand-offs are invisible to the race detector. Every hand-off goes through
// plain words that are only touched inside go:norace functions, with
// runtime.Gosched spinning, so ThreadSanitizer sees no happens-before edge
// between two workers except the ones created by the code under test itself.
// Two conflicting accesses that the scheduler executes one after the other are
// therefore still reported as a race when no lock or atomic orders them.

const (
	rRunning uint32 = iota
	rParked
	rDone
)

// RWorker is one workload goroutine.
type RWorker struct {
	Name  string
	Fn    func()
	state uint32
	gof   uint32
	point string
	gid   int64
	pad   [8]uint64 // keep workers' hot words on different cache lines
}

// RConfig decides a run.
type RConfig struct {
	Tape       []uint16
	Disabled   map[string]bool // hook points that do not consume a decision
	SpinPoints map[string]bool // hook points inside spin loops (low priority, livelock accounting)
	// SpinFollowers are points a goroutine reaches on its way back to a spin
	// point (the top of a retry loop); a goroutine that arrives there straight
	// from a spin point still counts as spinning.
	SpinFollowers map[string]bool
	MaxSteps      int
	// SpinBurst > 0: goroutines in spin loops compete like any other for up to
	// that many consecutive steps (the goroutine they wait for is stalled that
	// long: preempted, copying, collecting garbage), before the scheduler goes
	// back to preferring goroutines that can make progress.
	SpinBurst int
}

// ROutcome describes a finished run.
type ROutcome struct {
	Decisions int
	Trace     []string
	TraceHash uint64
	Livelock  bool
	Budget    bool
	Stuck     []string
	Panics    map[string]any // worker name -> recovered panic value
}

type rsim struct {
	cfg     RConfig
	workers []*RWorker
}

var rcurrent *rsim

var installR sync.Once

// InstallR installs Engine R's hook function. Tests that use Engine R call it
// first thing, before any code under test has run in the process, because the
// hook variable is deliberately a plain word.
func InstallR() { installR.Do(func() { verifhooks.SetYield(ryield) }) }

//go:norace
func (w *RWorker) park(point string) {
	w.point = point
	w.state = rParked
	for w.gof == 0 {
		runtime.Gosched()
	}
	w.gof = 0
}

//go:norace
func (w *RWorker) finish() { w.state = rDone }

//go:norace
func (w *RWorker) setGid(g int64) { w.gid = g }

//go:norace
func (w *RWorker) resume() {
	w.state = rRunning
	w.gof = 1
}

//go:norace
func (w *RWorker) settle() uint32 {
	for w.state == rRunning {
		runtime.Gosched()
	}
	return w.state
}

//go:norace
func (w *RWorker) peek() (uint32, string) { return w.state, w.point }

//go:norace
func (s *rsim) lookup(g int64) *RWorker {
	for _, w := range s.workers {
		if w.gid == g {
			return w
		}
	}
	return nil
}

//go:norace
func ryield(point, _ string) {
	s := rcurrent
	if s == nil {
		return
	}
	if w := s.lookup(goid.Get()); w != nil {
		w.park(point)
	}
}

// RYield is a harness-level hook point for Engine R workers.
func RYield(point string) { ryield(point, "") }

// RunHBFree executes the workers under the serialising scheduler. Workers must
// not block on anything but the code under test's own short critical sections
// (which are never contended, because only one worker runs at a time and no
// hook is reached with a lock held).
func RunHBFree(cfg RConfig, workers []*RWorker) *ROutcome {
	if cfg.MaxSteps <= 0 {
		cfg.MaxSteps = 5000
	}
	s := &rsim{cfg: cfg, workers: workers}
	out := &ROutcome{Panics: map[string]any{}}
	var pmu sync.Mutex
	var wg sync.WaitGroup
	rcurrent = s
	// The hook function is installed once, before anything else runs, and never
	// changed again (see InstallR): a later write would race with earlier reads.
	InstallR()
	for _, w := range workers {
		w := w
		w.state, w.gof, w.gid, w.point = rRunning, 0, 0, ""
		wg.Add(1)
		go func() {
			defer wg.Done()
			defer w.finish()
			defer func() {
				if p := recover(); p != nil {
					pmu.Lock()
					out.Panics[w.Name] = p
					pmu.Unlock()
				}
			}()
			w.setGid(goid.Get())
			w.park("r.start")
			w.Fn()
		}()
	}
	for _, w := range workers {
		w.settle()
	}
	var last *RWorker
	cameFromSpin := map[*RWorker]bool{}
	isSpinning := func(w *RWorker, pt string) bool {
		// "auto." points are inserted before every atomic step by cmd/autoyield;
		// "auto.spin." ones sit at the top of loops that wait on an atomic.
		if cfg.SpinPoints[pt] || strings.HasPrefix(pt, "auto.spin.") {
			return true
		}
		return cameFromSpin[w] && (cfg.SpinFollowers[pt] || strings.HasPrefix(pt, "auto."))
	}
	spinOnly := 0
	spinStreak := 0 // consecutive steps given to spinning goroutines while others could run
	burst := false
	var hash uint64
	for {
		// A disabled point does not consume a decision.
		if last != nil {
			if st, pt := last.peek(); st == rParked && pointDisabled(cfg.Disabled, pt) && !isSpinning(last, pt) {
				stats.point(pt)
				stats.RSteps++
				last.resume()
				last.settle()
				continue
			}
		}
		var parked, nonSpin []*RWorker
		var state []string
		for _, w := range workers {
			st, pt := w.peek()
			if st == rParked {
				state = append(state, w.Name+"@"+pt)
				parked = append(parked, w)
				if !isSpinning(w, pt) {
					nonSpin = append(nonSpin, w)
				}
			}
		}
		if len(parked) == 0 {
			break
		}
		stats.state(strings.Join(state, ";"))
		cand := nonSpin
		if len(nonSpin) > 0 && len(nonSpin) < len(parked) && spinStreak < cfg.SpinBurst {
			cand = parked
			burst = true
		} else {
			burst = false
		}
		if len(cand) == 0 {
			cand = parked
			spinOnly++
			if spinOnly > 200 {
				out.Livelock = true
				for _, w := range parked {
					_, pt := w.peek()
					out.Stuck = append(out.Stuck, w.Name+"@"+pt)
				}
				break
			}
		} else {
			spinOnly = 0
		}
		if out.Decisions >= cfg.MaxSteps {
			out.Budget = true
			break
		}
		sort.Slice(cand, func(i, j int) bool { return cand[i].Name < cand[j].Name })
		var t uint16
		if out.Decisions < len(cfg.Tape) {
			t = cfg.Tape[out.Decisions]
		}
		var w *RWorker
		if len(nonSpin) == 0 {
			// Only spinners are left: they wait for each other's progress, so be
			// fair and run them round-robin (a spin loop assumes a fair scheduler).
			w = cand[0]
			for i, x := range cand {
				if x == last {
					w = cand[(i+1)%len(cand)]
					break
				}
			}
		} else {
			if last != nil {
				for i, x := range cand {
					if x == last {
						copy(cand[1:i+1], cand[:i])
						cand[0] = last
						break
					}
				}
			}
			w = cand[int(t)%len(cand)]
		}
		_, pt := w.peek()
		if burst && isSpinning(w, pt) {
			spinStreak++
		} else if !isSpinning(w, pt) {
			spinStreak = 0
		}
		step := w.Name + "@" + pt
		out.Trace = append(out.Trace, step)
		hash = mix(hash, step)
		out.Decisions++
		stats.point(pt)
		stats.RSteps++
		if w != last {
			stats.Switches++
		}
		last = w
		cameFromSpin[w] = isSpinning(w, pt)
		w.resume()
		w.settle()
	}
	if out.Livelock || out.Budget {
		// Abandon the run: the remaining workers stay parked for ever (they hold
		// no locks). The process is about to report a violation anyway.
		rcurrent = nil
		out.TraceHash = hash
		return out
	}
	wg.Wait()
	rcurrent = nil
	out.TraceHash = hash
	stats.Runs++
	stats.Decisions += int64(out.Decisions)
	stats.trace(hash)
	return out
}

// DescribePanics renders recovered worker panics deterministically.
func (o *ROutcome) DescribePanics() string {
	var names []string
	for n := range o.Panics {
		names = append(names, n)
	}
	sort.Strings(names)
	s := ""
	for _, n := range names {
		s += fmt.Sprintf("%s: %v; ", n, o.Panics[n])
	}
	return s
}
