//go:build verif

// Package sim contains the two deterministic schedulers used by the /verif
// checks. This file is Engine B ("bubble"): a serialising scheduler that runs
// real protocompile goroutines inside a testing/synctest bubble and decides,
// from a tape of small integers, which parked goroutine proceeds next.
package sim

import (
	"fmt"
	"hash/fnv"
	"os"
	"regexp"
	"runtime"
	"sort"
	"strings"
	"sync"
	"testing"
	"testing/synctest"

	"github.com/bufbuild/protocompile/verifhooks"
	"github.com/petermattis/goid"
)

// addrRE strips pointer values from goroutine ids: names must be data only.
var addrRE = regexp.MustCompile(`0x[0-9a-fA-F]+`)

// HarnessFault is panicked (outside the bubble) when the simulator's own
// assumptions are broken. It is never a property violation: the test binary
// exits with status 2.
type HarnessFault struct{ Msg string }

func (h HarnessFault) Error() string { return "HARNESS FAULT: " + h.Msg }

// Client is one caller thread of the system under test.
type Client struct {
	Name string
	Fn   func()
}

// Event is an action the scheduler itself performs (on its own goroutine, with
// every other goroutine quiescent) when the decision counter reaches At.
type Event struct {
	At   int
	Name string
	Fn   func()
}

// BubbleConfig is everything that decides a run besides the code under test.
type BubbleConfig struct {
	Tape     []uint16        // decision i picks enabled[tape[i] % len(enabled)]; enabled = [last-run, then by name]
	Disabled map[string]bool // hook points that never consume a decision in this run
	Victim   string          // goroutine (by name) that only runs when nothing else can ("stalled node")
	MaxSteps int             // decision budget; exceeding it is reported as Budget
	// WakePoints are the hook points a goroutine may reach without having been
	// released by the scheduler: goroutine entry points and the first statement
	// after every blocking operation.
	WakePoints map[string]bool
	// Guards: a goroutine parked at the point is enabled only while the
	// predicate holds (used to model a lock held across parks).
	Guards map[string]func() bool
	// Stall: a goroutine that parks at one of these points is not scheduled for
	// the given number of decisions, as long as anything else can run (a node
	// that stalls at a particular place, e.g. in the middle of a critical
	// section).
	Stall map[string]int
	// PCT, when non-nil, replaces the tape by a priority schedule in the style
	// of probabilistic concurrency testing: every goroutine gets a pseudo-random
	// priority derived from Seed and its name, the highest-priority enabled
	// goroutine always runs, and at each decision index listed in ChangeAt the
	// goroutine that was about to run drops to the lowest priority instead.
	PCT *PCT
	// Tail, when non-nil, decides every decision beyond the end of the tape
	// pseudo-randomly (a pure function of Seed and the decision index) instead
	// of "keep running the same goroutine": with probability Sticky% the
	// running goroutine continues, otherwise one of the enabled ones is picked.
	// Long runs (thousands of decisions) are otherwise only perturbed in
	// their first len(Tape) decisions.
	Tail *Tail
}

// Tail configures the pseudo-random continuation of the tape (see BubbleConfig.Tail).
type Tail struct {
	Seed   uint32 `json:"seed"`
	Sticky int    `json:"sticky"`
}

// PCT configures the priority strategy (see BubbleConfig.PCT).
type PCT struct {
	Seed     uint32 `json:"seed"`
	ChangeAt []int  `json:"change_at"`
}

// G is a goroutine known to the scheduler.
type G struct {
	Name   string
	Client string
	goid   int64
	point  string
	ch     chan struct{}
	parked bool
	// cond, when non-nil, must hold before the goroutine can be scheduled (it
	// waits for a simulator-visible mutex)
	cond func() bool
	// stalledUntil: not schedulable before this decision index (see BubbleConfig.Stall)
	stalledUntil int
	stallSet     bool
}

// Outcome describes one finished run.
type Outcome struct {
	Decisions   int
	Forced      int
	Trace       []string
	TraceHash   uint64
	Deadlock    bool     // some client has not returned and nothing is enabled
	Stuck       []string // parked-but-disabled goroutines and unreturned clients at deadlock
	Budget      bool     // decision budget exhausted
	Leak        bool     // goroutines still blocked after every client returned and nothing was parked
	LeakInfo    string
	Fired       []string // events that fired, in order
	ClientsDone map[string]bool
}

// Bubble is one simulated execution.
type Bubble struct {
	cfg     BubbleConfig
	mu      sync.Mutex
	gs      map[int64]*G
	names   map[string]int
	all     []*G
	pending []*G // registered during the current step, not yet finally named
	running *G
	fault   string
	done    map[string]bool
	nclient int
	events  []Event
	out     *Outcome
	hash    uint64
	prio    map[string]int64 // PCT priorities by goroutine name
}

// Current is the bubble whose hooks are active (nil outside runs).
var current *Bubble

// CurrentName returns the scheduler's name for the calling goroutine, or "".
func CurrentName() string {
	b := current
	if b == nil {
		return ""
	}
	id := goid.Get()
	b.mu.Lock()
	defer b.mu.Unlock()
	if g := b.gs[id]; g != nil {
		return g.Name
	}
	return ""
}

// After registers an event that the scheduler performs delta decisions from
// now. It is called by the running client goroutine (e.g. to cancel, a given
// number of steps into an operation, the context it has just created).
func After(delta int, name string, fn func()) {
	b := current
	if b == nil {
		return
	}
	b.mu.Lock()
	b.events = append(b.events, Event{At: b.out.Decisions + delta, Name: name, Fn: fn})
	b.mu.Unlock()
}

// KnownGoroutines returns the ids of all goroutines the scheduler has seen so
// far in the current run (to be called by the running goroutine).
func KnownGoroutines() map[int64]bool {
	b := current
	if b == nil {
		return nil
	}
	b.mu.Lock()
	defer b.mu.Unlock()
	out := make(map[int64]bool, len(b.gs))
	for id := range b.gs {
		out[id] = true
	}
	return out
}

// SpawnedParked reports whether any goroutine that is not a client (i.e. one
// that the code under test spawned) is parked at a hook. For use inside
// BubbleConfig.Guards only: the scheduler calls guards with its lock held.
// Because goroutines run one at a time, a spawned goroutine that is still alive
// is either parked or blocked on something only another such goroutine (or a
// client) can release.
func SpawnedParked() bool {
	b := current
	if b == nil {
		return false
	}
	for _, g := range b.all {
		if g.parked && g.Name != g.Client {
			return true
		}
	}
	return false
}

// Yield is a harness-level hook point (same semantics as the hooks in /repo).
func Yield(point, id string) {
	if b := current; b != nil {
		b.yield(point, id)
	}
}

func (b *Bubble) yield(point, id string) {
	gid := goid.Get()
	b.mu.Lock()
	g := b.gs[gid]
	if g == nil {
		if !b.cfg.WakePoints[point] {
			// A goroutine the scheduler has never seen shows up somewhere
			// other than a goroutine entry point.
			if b.fault == "" {
				b.fault = fmt.Sprintf("unknown goroutine at non-entry hook %q (id %q)", point, id)
			}
			b.mu.Unlock()
			return
		}
		g = &G{goid: gid}
		id = addrRE.ReplaceAllString(id, "")
		if b.running == nil {
			g.Client = id
			g.Name = id
		} else {
			g.Client = b.running.Client
			g.Name = g.Client + "/" + id
		}
		// The final name (with a ~n suffix when the base name is already taken) is
		// assigned by the scheduler once everything is quiescent, in goroutine-id
		// order, so that it does not depend on which of several goroutines spawned
		// in the same step happens to reach its entry hook first.
		b.pending = append(b.pending, g)
		b.gs[gid] = g
		b.all = append(b.all, g)
	} else if g != b.running && !b.cfg.WakePoints[point] {
		if b.fault == "" {
			b.fault = fmt.Sprintf("goroutine %s reached hook %q without being scheduled (running=%v): a blocking operation lacks an after-wake hook", g.Name, point, b.runningName())
		}
	}
	ch := make(chan struct{})
	g.ch = ch
	g.point = point
	g.parked = true
	b.mu.Unlock()
	<-ch
}

// block parks the calling goroutine at point until cond holds (the wait for a
// simulator-visible mutex: verifhooks.SetBlock).
func (b *Bubble) block(point string, cond func() bool) {
	gid := goid.Get()
	b.mu.Lock()
	g := b.gs[gid]
	if g == nil || g != b.running {
		if b.fault == "" {
			b.fault = fmt.Sprintf("a goroutine that is not the running one waits for a lock at %q (running=%v)", point, b.runningName())
		}
		b.mu.Unlock()
		return
	}
	ch := make(chan struct{})
	g.ch = ch
	g.point = point
	g.cond = cond
	g.parked = true
	b.mu.Unlock()
	<-ch
}

func (b *Bubble) runningName() string {
	if b.running == nil {
		return "<scheduler>"
	}
	return b.running.Name
}

func (b *Bubble) enabled(g *G) bool {
	if !g.parked {
		return false
	}
	if g.cond != nil && !g.cond() {
		return false
	}
	if f := b.cfg.Guards[g.point]; f != nil && !f() {
		return false
	}
	return true
}

func (b *Bubble) release(g *G) {
	g.parked = false
	g.cond = nil
	g.stallSet = false
	b.running = g
	close(g.ch)
}

// pointDisabled: "auto." in the set switches off every automatically inserted
// point at once.
func pointDisabled(set map[string]bool, pt string) bool {
	if set[pt] || (set["auto."] && strings.HasPrefix(pt, "auto.")) {
		return true
	}
	for k := range set {
		if strings.HasSuffix(k, "*") && strings.HasPrefix(pt, k[:len(k)-1]) {
			return true
		}
	}
	return false
}

func mix(h uint64, s string) uint64 {
	f := fnv.New64a()
	var buf [8]byte
	for i := 0; i < 8; i++ {
		buf[i] = byte(h >> (8 * i))
	}
	f.Write(buf[:])
	f.Write([]byte(s))
	return f.Sum64()
}

// loop is the scheduler; it runs on the bubble's root goroutine.
func (b *Bubble) loop(clients []Client) {
	for _, c := range clients {
		c := c
		go func() {
			b.yield("client.start", c.Name)
			defer func() {
				b.mu.Lock()
				b.done[c.Name] = true
				b.mu.Unlock()
			}()
			c.Fn()
		}()
	}
	out := b.out
	for {
		synctest.Wait()
		b.mu.Lock()
		if b.fault != "" {
			b.mu.Unlock()
			return
		}
		if len(b.pending) > 0 {
			sort.Slice(b.pending, func(i, j int) bool { return b.pending[i].goid < b.pending[j].goid })
			for _, g := range b.pending {
				if n := b.names[g.Name]; n > 0 {
					b.names[g.Name] = n + 1
					g.Name = fmt.Sprintf("%s~%d", g.Name, n+1)
				} else {
					b.names[g.Name] = 1
				}
			}
			b.pending = b.pending[:0]
		}
		// Scheduler-performed events due now.
		fired := false
		for i := range b.events {
			ev := &b.events[i]
			if ev.Fn != nil && ev.At <= out.Decisions {
				fn := ev.Fn
				ev.Fn = nil
				out.Fired = append(out.Fired, ev.Name)
				b.hash = mix(b.hash, "!"+ev.Name)
				out.Trace = append(out.Trace, "!"+ev.Name)
				b.mu.Unlock()
				fn()
				fired = true
				b.mu.Lock()
				break
			}
		}
		if fired {
			b.mu.Unlock()
			continue
		}
		// A disabled hook point does not consume a decision.
		if r := b.running; r != nil && r.parked && pointDisabled(b.cfg.Disabled, r.point) && b.enabled(r) {
			out.Forced++
			stats.point(r.point)
			b.release(r)
			b.mu.Unlock()
			continue
		}
		var en, stalled []*G
		var state []string
		for _, g := range b.all {
			if g.parked {
				state = append(state, g.Name+"@"+g.point)
			}
			if b.enabled(g) {
				if n := b.cfg.Stall[g.point]; n > 0 {
					if !g.stallSet {
						g.stallSet = true
						g.stalledUntil = out.Decisions + n
					}
					if out.Decisions < g.stalledUntil {
						stalled = append(stalled, g)
						continue
					}
				}
				en = append(en, g)
			}
		}
		if len(en) == 0 {
			en = stalled // nothing else can run: the stall is over
		}
		if len(en) == 0 {
			alldone := len(b.done) == b.nclient
			if !alldone {
				out.Deadlock = true
				for _, c := range clients {
					if !b.done[c.Name] {
						out.Stuck = append(out.Stuck, "client "+c.Name+" has not returned")
					}
				}
				for _, g := range b.all {
					if g.parked {
						out.Stuck = append(out.Stuck, g.Name+"@"+g.point+" (guard closed)")
					}
				}
			}
			b.mu.Unlock()
			return
		}
		if out.Decisions >= b.cfg.MaxSteps {
			out.Budget = true
			b.mu.Unlock()
			return
		}
		sort.Slice(en, func(i, j int) bool { return en[i].Name < en[j].Name })
		sort.Strings(state)
		stats.state(strings.Join(state, ";"))
		if b.cfg.Victim != "" && len(en) > 1 {
			for i, g := range en {
				if g.Name == b.cfg.Victim {
					en = append(en[:i:i], en[i+1:]...)
					break
				}
			}
		}
		if r := b.running; r != nil {
			for i, g := range en {
				if g == r {
					copy(en[1:i+1], en[:i])
					en[0] = r
					break
				}
			}
		}
		var t uint16
		if out.Decisions < len(b.cfg.Tape) {
			t = b.cfg.Tape[out.Decisions]
		} else if tl := b.cfg.Tail; tl != nil {
			r := mix(uint64(tl.Seed)<<20^uint64(out.Decisions), "tail")
			if int(r%100) >= tl.Sticky {
				t = uint16((r >> 8) % 8)
			}
		}
		g := en[int(t)%len(en)]
		if p := b.cfg.PCT; p != nil {
			best := func() *G {
				var top *G
				for _, x := range en {
					if _, ok := b.prio[x.Name]; !ok {
						b.prio[x.Name] = int64(mix(uint64(p.Seed), x.Name) >> 2)
					}
					if top == nil || b.prio[x.Name] > b.prio[top.Name] {
						top = x
					}
				}
				return top
			}
			g = best()
			for k, at := range p.ChangeAt {
				if at == out.Decisions {
					b.prio[g.Name] = -int64(k) - 1 // below every initial priority
					g = best()
				}
			}
		}
		if g != b.running {
			stats.Switches++
		}
		out.Decisions++
		step := g.Name + "@" + g.point
		out.Trace = append(out.Trace, step)
		b.hash = mix(b.hash, step)
		stats.point(g.point)
		b.release(g)
		b.mu.Unlock()
	}
}

// RunBubble executes clients under the scheduler and returns what happened.
// Everything the clients touch that blocks (channels, contexts) must be
// created by the clients themselves, i.e. inside the bubble.
func RunBubble(t *testing.T, cfg BubbleConfig, clients []Client, events []Event) *Outcome {
	if cfg.MaxSteps <= 0 {
		cfg.MaxSteps = 2000
	}
	wp := map[string]bool{"client.start": true}
	for k, v := range cfg.WakePoints {
		wp[k] = v
	}
	cfg.WakePoints = wp
	b := &Bubble{
		cfg:     cfg,
		gs:      map[int64]*G{},
		names:   map[string]int{},
		done:    map[string]bool{},
		nclient: len(clients),
		events:  append([]Event(nil), events...),
		out:     &Outcome{},
		prio:    map[string]int64{},
	}
	sort.SliceStable(b.events, func(i, j int) bool { return b.events[i].At < b.events[j].At })
	current = b
	verifhooks.SetYield(b.yield)
	verifhooks.SetBlock(b.block)
	func() {
		defer func() {
			if r := recover(); r != nil {
				msg := fmt.Sprint(r)
				if strings.Contains(msg, "blocked goroutines remain") || strings.Contains(msg, "deadlock") {
					b.out.Leak = true
					b.out.LeakInfo = msg
					return
				}
				panic(r)
			}
		}()
		synctest.Test(t, func(*testing.T) { b.loop(clients) })
	}()
	verifhooks.SetYield(nil)
	verifhooks.SetBlock(nil)
	current = nil
	if b.fault != "" {
		panic(HarnessFault{b.fault})
	}
	out := b.out
	out.TraceHash = b.hash
	out.ClientsDone = b.done
	if out.Deadlock || out.Budget {
		// The goroutines left behind are a consequence, not a separate finding.
		out.Leak = false
	}
	stats.Runs++
	stats.Decisions += int64(out.Decisions)
	stats.Forced += int64(out.Forced)
	stats.trace(out.TraceHash)
	if path := os.Getenv("VERIF_TRACE_DUMP"); path != "" {
		if f, err := os.OpenFile(path, os.O_APPEND|os.O_CREATE|os.O_WRONLY, 0o644); err == nil {
			fmt.Fprintf(f, "RUN %d hash=%d\n%s\n", stats.Runs, out.TraceHash, strings.Join(out.Trace, "\n"))
			f.Close()
		}
	}
	return out
}

// BlockedStacks returns the stacks of all goroutines (for leak reports),
// with addresses and goroutine ids stripped.
func BlockedStacks() string {
	buf := make([]byte, 1<<20)
	n := runtime.Stack(buf, true)
	return string(buf[:n])
}
