//go:build verif && race

package sim

import "runtime"

// RaceEnabled reports whether the binary was built with the race detector.
const RaceEnabled = true

// RaceErrors returns the number of data races reported so far in this process.
func RaceErrors() int { return runtime.RaceErrors() }
