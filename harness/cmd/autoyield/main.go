// Command autoyield rewrites a lock-free Go source file of the repository so
// that a simulation yield point precedes every statement that performs an
// atomic or sync.Map operation. The rewritten copy is substituted at build time
// with `go build -overlay`; /repo itself is not touched. This makes the
// granularity of Engine R's schedules independent of where hooks were placed by
// hand: a change that splits one atomic step into two (Load then Store instead
// of LoadOrStore) automatically gets a scheduling point between the two.
//
// With -names lock the rewritten operations are mutex acquisitions (Lock,
// RLock) instead: a change that narrows or splits a critical section gets a
// scheduling point at the new acquisition. Functions that run with a lock held
// across their whole body can be excluded with -skip.
//
// With -names both, both kinds of operation get a yield point.
//
// usage: autoyield [-names atomic|lock|both] [-skip f1,f2] <label> <in.go> <out.go>
package main

import (
	"bytes"
	"flag"
	"fmt"
	"go/ast"
	"go/format"
	"go/parser"
	"go/token"
	"os"
	"strings"
)

var lockNames = map[string]bool{"Lock": true, "RLock": true}

// visibleLocks: the mutexes of the file are simulator-visible, so a goroutine
// may be parked with one held and no lock region needs to be left out.
var visibleLocks bool

var atomicNames = map[string]bool{
	"Load": true, "Store": true, "LoadOrStore": true, "LoadAndDelete": true, "CompareAndSwap": true,
	"CompareAndDelete": true, "Add": true, "Swap": true, "Range": true, "Delete": true, "And": true, "Or": true,
}

// hasAtomicCall reports whether n contains (outside nested function literals
// and nested blocks) a call x.M(...) with M an atomic-looking method.
func hasAtomicCall(n ast.Node) bool {
	found := false
	ast.Inspect(n, func(x ast.Node) bool {
		switch c := x.(type) {
		case *ast.FuncLit, *ast.BlockStmt:
			return false
		case *ast.CallExpr:
			if sel, ok := c.Fun.(*ast.SelectorExpr); ok && atomicNames[sel.Sel.Name] {
				if id, ok := sel.X.(*ast.Ident); ok && (id.Name == "simhook" || id.Name == "runtime" || id.Name == "strings" || id.Name == "unsafe") {
					return true
				}
				found = true
			}
		}
		return true
	})
	return found
}

func yieldStmt(label string, fset *token.FileSet, pos token.Pos, spin bool) ast.Stmt {
	name := fmt.Sprintf("auto.%s:%d", label, fset.Position(pos).Line)
	if spin {
		name = fmt.Sprintf("auto.spin.%s:%d", label, fset.Position(pos).Line)
	}
	return &ast.ExprStmt{X: &ast.CallExpr{
		Fun:  &ast.SelectorExpr{X: ast.NewIdent("simhook"), Sel: ast.NewIdent("Yield")},
		Args: []ast.Expr{&ast.BasicLit{Kind: token.STRING, Value: fmt.Sprintf("%q", name)}, &ast.BasicLit{Kind: token.STRING, Value: `""`}},
	}}
}

// lockCall classifies a statement: +1 for x.Lock()/x.RLock(), -1 for
// x.Unlock()/x.RUnlock(), 0 otherwise; deferred reports `defer x.Unlock()`.
func lockCall(st ast.Stmt) (delta int, deferred bool) {
	if visibleLocks {
		return 0, false
	}
	var call *ast.CallExpr
	switch s := st.(type) {
	case *ast.ExprStmt:
		call, _ = s.X.(*ast.CallExpr)
	case *ast.DeferStmt:
		call = s.Call
		deferred = true
	}
	if call == nil {
		return 0, false
	}
	sel, ok := call.Fun.(*ast.SelectorExpr)
	if !ok {
		return 0, false
	}
	// A read lock counts too (a goroutine parked with a read lock held would
	// block a writer where the scheduler cannot see it, and the readers queued
	// behind that writer), with one exception: Executor.dirty, which Run holds
	// shared for its whole duration and which the scheduler models.
	if x, ok := sel.X.(*ast.SelectorExpr); ok && x.Sel.Name == "dirty" && strings.HasPrefix(sel.Sel.Name, "R") {
		return 0, false
	}
	switch sel.Sel.Name {
	case "Lock", "RLock":
		if deferred {
			return 0, false
		}
		return 1, false
	case "Unlock", "RUnlock":
		return -1, deferred
	}
	return 0, false
}

// rewriteList inserts the yields into one statement list and recurses into
// nested statements. held > 0 means that a mutex taken in an enclosing (or
// this) list is held here: no yield is ever inserted there, because a
// goroutine parked with a mutex held would block the others where the
// scheduler cannot see them. A `defer x.Unlock()` keeps the lock held to the
// end of the function.
func rewriteList(label string, fset *token.FileSet, list []ast.Stmt, held int) []ast.Stmt {
	var out []ast.Stmt
	untilEnd := false
	for _, st := range list {
		delta, deferred := lockCall(st)
		need := false
		switch s := st.(type) {
		case *ast.ForStmt:
			if held == 0 && ((s.Cond != nil && hasAtomicCall(s.Cond)) || (s.Init != nil && hasAtomicCall(s.Init))) {
				need = true
				s.Body.List = append([]ast.Stmt{yieldStmt(label, fset, s.Pos(), true)}, rewriteList(label, fset, s.Body.List, held)...)
			} else {
				s.Body.List = rewriteList(label, fset, s.Body.List, held)
			}
		case *ast.IfStmt:
			if (s.Init != nil && hasAtomicCall(s.Init)) || hasAtomicCall(s.Cond) {
				need = true
			}
			rewriteIf(label, fset, s, held)
		case *ast.BlockStmt:
			s.List = rewriteList(label, fset, s.List, held)
		case *ast.RangeStmt:
			s.Body.List = rewriteList(label, fset, s.Body.List, held)
		case *ast.SwitchStmt:
			rewriteClauses(label, fset, s.Body, held)
		case *ast.TypeSwitchStmt:
			rewriteClauses(label, fset, s.Body, held)
		case *ast.SelectStmt:
			rewriteClauses(label, fset, s.Body, held)
		case *ast.LabeledStmt:
			tmp := rewriteList(label, fset, []ast.Stmt{s.Stmt}, held)
			if len(tmp) == 2 {
				// a yield was inserted before the labelled statement: keep the label first
				out = append(out, tmp[0])
			}
		case *ast.DeferStmt, *ast.GoStmt:
			rewriteFuncLits(label, fset, st)
		default:
			need = hasAtomicCall(st)
			rewriteFuncLits(label, fset, st)
		}
		if need && held == 0 {
			out = append(out, yieldStmt(label, fset, st.Pos(), false))
		}
		out = append(out, st)
		switch {
		case delta > 0:
			held++
		case delta < 0 && deferred:
			untilEnd = true
		case delta < 0 && held > 0 && !untilEnd:
			held--
		}
	}
	return out
}

func rewriteIf(label string, fset *token.FileSet, s *ast.IfStmt, held int) {
	s.Body.List = rewriteList(label, fset, s.Body.List, held)
	switch e := s.Else.(type) {
	case *ast.BlockStmt:
		e.List = rewriteList(label, fset, e.List, held)
	case *ast.IfStmt:
		rewriteIf(label, fset, e, held)
	}
}

func rewriteClauses(label string, fset *token.FileSet, body *ast.BlockStmt, held int) {
	for _, c := range body.List {
		switch cl := c.(type) {
		case *ast.CaseClause:
			cl.Body = rewriteList(label, fset, cl.Body, held)
		case *ast.CommClause:
			cl.Body = rewriteList(label, fset, cl.Body, held)
		}
	}
}

// rewriteFuncLits rewrites the bodies of function literals inside a statement
// (goroutine bodies, deferred closures, callbacks); they start with no lock held.
func rewriteFuncLits(label string, fset *token.FileSet, n ast.Node) {
	ast.Inspect(n, func(x ast.Node) bool {
		if fl, ok := x.(*ast.FuncLit); ok {
			fl.Body.List = rewriteList(label, fset, fl.Body.List, 0)
			return false
		}
		return true
	})
}

func main() {
	names := flag.String("names", "atomic", "atomic | lock | both")
	skip := flag.String("skip", "", "comma-separated function names to leave alone")
	vismutex := flag.Bool("vismutex", false, "replace sync.Mutex / sync.RWMutex by the simulator-visible simhook types (no lock region is left out then)")
	flag.Parse()
	if flag.NArg() != 3 {
		fmt.Fprintln(os.Stderr, "usage: autoyield [-names atomic|lock] [-skip f1,f2] <label> <in.go> <out.go>")
		os.Exit(2)
	}
	switch *names {
	case "lock":
		atomicNames = lockNames
	case "both":
		for k := range lockNames {
			atomicNames[k] = true
		}
	}
	skipped := map[string]bool{}
	for _, f := range strings.Split(*skip, ",") {
		if f != "" {
			skipped[f] = true
		}
	}
	label, in, outPath := flag.Arg(0), flag.Arg(1), flag.Arg(2)
	fset := token.NewFileSet()
	f, err := parser.ParseFile(fset, in, nil, parser.ParseComments)
	if err != nil {
		fmt.Fprintln(os.Stderr, err)
		os.Exit(2)
	}
	hasImport := false
	for _, im := range f.Imports {
		if im.Path.Value == `"github.com/bufbuild/protocompile/internal/simhook"` {
			hasImport = true
		}
	}
	if !hasImport {
		// add the import to the first import declaration
		added := false
		for _, d := range f.Decls {
			if gd, ok := d.(*ast.GenDecl); ok && gd.Tok == token.IMPORT {
				spec := &ast.ImportSpec{Path: &ast.BasicLit{Kind: token.STRING, Value: `"github.com/bufbuild/protocompile/internal/simhook"`}}
				gd.Specs = append(gd.Specs, spec)
				if !gd.Lparen.IsValid() {
					gd.Lparen = gd.Pos()
					gd.Rparen = gd.End()
				}
				added = true
				break
			}
		}
		if !added {
			fmt.Fprintln(os.Stderr, "autoyield: file has no import declaration to extend")
			os.Exit(2)
		}
	}
	if *vismutex {
		visibleLocks = true
		ast.Inspect(f, func(n ast.Node) bool {
			if sel, ok := n.(*ast.SelectorExpr); ok {
				if id, ok := sel.X.(*ast.Ident); ok && id.Name == "sync" && (sel.Sel.Name == "Mutex" || sel.Sel.Name == "RWMutex") {
					id.Name = "simhook"
				}
			}
			return true
		})
		// the file may not use package sync for anything else
		f.Decls = append(f.Decls, &ast.GenDecl{Tok: token.VAR, Specs: []ast.Spec{&ast.ValueSpec{
			Names: []*ast.Ident{ast.NewIdent("_")},
			Type:  &ast.SelectorExpr{X: ast.NewIdent("sync"), Sel: ast.NewIdent("Locker")},
		}}})
	}
	for _, d := range f.Decls {
		fd, ok := d.(*ast.FuncDecl)
		if !ok || fd.Body == nil || skipped[fd.Name.Name] {
			continue
		}
		fd.Body.List = rewriteList(label, fset, fd.Body.List, 0)
	}
	var buf bytes.Buffer
	if err := format.Node(&buf, fset, f); err != nil {
		fmt.Fprintln(os.Stderr, err)
		os.Exit(2)
	}
	if err := os.WriteFile(outPath, buf.Bytes(), 0o644); err != nil {
		fmt.Fprintln(os.Stderr, err)
		os.Exit(2)
	}
}
