// Command autoyield rewrites a lock-free Go source file of the repository so
// that a simulation yield point precedes every statement that performs an
// atomic or sync.Map operation. The rewritten copy is substituted at build time
// with `go build -overlay`; /repo itself is not touched. This makes the
// granularity of Engine R's schedules independent of where hooks were placed by
// hand: a change that splits one atomic step into two (Load then Store instead
// of LoadOrStore) automatically gets a scheduling point between the two.
//
// With -names lock the rewritten operations are mutex acquisitions (Lock,
// RLock) instead: a change that narrows or splits a critical section gets a
// scheduling point at the new acquisition. Functions that run with a lock held
// across their whole body can be excluded with -skip.
//
// With -names both, both kinds of operation get a yield point.
//
// usage: autoyield [-names atomic|lock|both] [-skip f1,f2] <label> <in.go> <out.go>
package main

import (
	"bytes"
	"flag"
	"fmt"
	"go/ast"
	"go/format"
	"go/parser"
	"go/token"
	"os"
	"strings"
)

var lockNames = map[string]bool{"Lock": true, "RLock": true}

var atomicNames = map[string]bool{
	"Load": true, "Store": true, "LoadOrStore": true, "LoadAndDelete": true, "CompareAndSwap": true,
	"CompareAndDelete": true, "Add": true, "Swap": true, "Range": true, "Delete": true, "And": true, "Or": true,
}

// hasAtomicCall reports whether n contains (outside nested function literals
// and nested blocks) a call x.M(...) with M an atomic-looking method.
func hasAtomicCall(n ast.Node) bool {
	found := false
	ast.Inspect(n, func(x ast.Node) bool {
		switch c := x.(type) {
		case *ast.FuncLit, *ast.BlockStmt:
			return false
		case *ast.CallExpr:
			if sel, ok := c.Fun.(*ast.SelectorExpr); ok && atomicNames[sel.Sel.Name] {
				if id, ok := sel.X.(*ast.Ident); ok && (id.Name == "simhook" || id.Name == "runtime" || id.Name == "strings" || id.Name == "unsafe") {
					return true
				}
				found = true
			}
		}
		return true
	})
	return found
}

func yieldStmt(label string, fset *token.FileSet, pos token.Pos, spin bool) ast.Stmt {
	name := fmt.Sprintf("auto.%s:%d", label, fset.Position(pos).Line)
	if spin {
		name = fmt.Sprintf("auto.spin.%s:%d", label, fset.Position(pos).Line)
	}
	return &ast.ExprStmt{X: &ast.CallExpr{
		Fun:  &ast.SelectorExpr{X: ast.NewIdent("simhook"), Sel: ast.NewIdent("Yield")},
		Args: []ast.Expr{&ast.BasicLit{Kind: token.STRING, Value: fmt.Sprintf("%q", name)}, &ast.BasicLit{Kind: token.STRING, Value: `""`}},
	}}
}

func rewriteList(label string, fset *token.FileSet, list []ast.Stmt) []ast.Stmt {
	var out []ast.Stmt
	for _, st := range list {
		need := false
		switch s := st.(type) {
		case *ast.ForStmt:
			if (s.Cond != nil && hasAtomicCall(s.Cond)) || (s.Init != nil && hasAtomicCall(s.Init)) {
				need = true
				s.Body.List = append([]ast.Stmt{yieldStmt(label, fset, s.Pos(), true)}, s.Body.List...)
			}
		case *ast.IfStmt:
			if (s.Init != nil && hasAtomicCall(s.Init)) || hasAtomicCall(s.Cond) {
				need = true
			}
		case *ast.BlockStmt, *ast.RangeStmt, *ast.SwitchStmt, *ast.TypeSwitchStmt, *ast.SelectStmt, *ast.LabeledStmt:
			// handled by recursion
		case *ast.DeferStmt, *ast.GoStmt:
		default:
			need = hasAtomicCall(st)
		}
		if need {
			out = append(out, yieldStmt(label, fset, st.Pos(), false))
		}
		out = append(out, st)
	}
	return out
}

func main() {
	names := flag.String("names", "atomic", "atomic | lock | both")
	skip := flag.String("skip", "", "comma-separated function names to leave alone")
	flag.Parse()
	if flag.NArg() != 3 {
		fmt.Fprintln(os.Stderr, "usage: autoyield [-names atomic|lock] [-skip f1,f2] <label> <in.go> <out.go>")
		os.Exit(2)
	}
	switch *names {
	case "lock":
		atomicNames = lockNames
	case "both":
		for k := range lockNames {
			atomicNames[k] = true
		}
	}
	skipped := map[string]bool{}
	for _, f := range strings.Split(*skip, ",") {
		if f != "" {
			skipped[f] = true
		}
	}
	label, in, outPath := flag.Arg(0), flag.Arg(1), flag.Arg(2)
	fset := token.NewFileSet()
	f, err := parser.ParseFile(fset, in, nil, parser.ParseComments)
	if err != nil {
		fmt.Fprintln(os.Stderr, err)
		os.Exit(2)
	}
	hasImport := false
	for _, im := range f.Imports {
		if im.Path.Value == `"github.com/bufbuild/protocompile/internal/simhook"` {
			hasImport = true
		}
	}
	if !hasImport {
		// add the import to the first import declaration
		added := false
		for _, d := range f.Decls {
			if gd, ok := d.(*ast.GenDecl); ok && gd.Tok == token.IMPORT {
				spec := &ast.ImportSpec{Path: &ast.BasicLit{Kind: token.STRING, Value: `"github.com/bufbuild/protocompile/internal/simhook"`}}
				gd.Specs = append(gd.Specs, spec)
				if !gd.Lparen.IsValid() {
					gd.Lparen = gd.Pos()
					gd.Rparen = gd.End()
				}
				added = true
				break
			}
		}
		if !added {
			fmt.Fprintln(os.Stderr, "autoyield: file has no import declaration to extend")
			os.Exit(2)
		}
	}
	ast.Inspect(f, func(n ast.Node) bool {
		switch b := n.(type) {
		case *ast.FuncDecl:
			if skipped[b.Name.Name] {
				return false
			}
		case *ast.BlockStmt:
			b.List = rewriteList(label, fset, b.List)
		case *ast.CaseClause:
			b.Body = rewriteList(label, fset, b.Body)
		case *ast.CommClause:
			b.Body = rewriteList(label, fset, b.Body)
		}
		return true
	})
	var buf bytes.Buffer
	if err := format.Node(&buf, fset, f); err != nil {
		fmt.Fprintln(os.Stderr, err)
		os.Exit(2)
	}
	if err := os.WriteFile(outPath, buf.Bytes(), 0o644); err != nil {
		fmt.Fprintln(os.Stderr, err)
		os.Exit(2)
	}
}
