//go:build verif

package props

import (
	"context"
	"errors"
	"fmt"
	"io"
	"sort"
	"strings"
	"testing"
	"testing/synctest"

	"google.golang.org/protobuf/proto"
	"google.golang.org/protobuf/reflect/protoreflect"

	"github.com/bufbuild/protocompile"
	"github.com/bufbuild/protocompile/linker"
	"github.com/bufbuild/protocompile/protoutil"
	"github.com/bufbuild/protocompile/reporter"

	"verifharness/sim"
)

// Hook points of the stable compiler (see MANIFEST.hooks): the first set can
// be reached by a goroutine that was woken by somebody else.
var compileWake = map[string]bool{
	"c.task.entry": true, "c.acquire.ok": true, "c.acquire.fail": true,
	"c.main.ready": true, "c.main.ctx": true, "c.dep.ready": true, "c.dep.ctx": true,
}

var compileOptional = []string{
	"auto.",
	"c.publish", "c.release", "c.setBlocked", "c.compileDep", "c.cycleCheck", "c.unblock", "c.link",
	"c.acquire.ok", "c.dep.ready", "c.main.ready",
	"s.import.check", "s.importFile", "s.importPackage.r", "s.importPackage.w", "s.getPackage",
	"s.importResult", "s.addExtension", "s.addExtDecl", "s.lookup.read",
}

var errNotFound = errors.New("file does not exist")

// Sched is the schedule half of a case: everything the scheduler consumes.
type Sched struct {
	Tape     []uint16  `json:"tape"`
	Disabled []string  `json:"disabled,omitempty"`
	Victim   string    `json:"victim,omitempty"`
	PCT      *sim.PCT  `json:"pct,omitempty"`  // priority strategy instead of the tape
	Tail     *sim.Tail `json:"tail,omitempty"` // pseudo-random continuation beyond the tape
}

// CompileRun is the configuration of one Compile call.
type CompileRun struct {
	Par     int      `json:"par"`
	Request []string `json:"request"` // requested names in order (may repeat)
	Symbols bool     `json:"symbols"` // supply a fresh symbol table instead of nil
	// RetainASTs: keep the ASTs in the results (must not change any descriptor)
	RetainASTs bool `json:"retain_asts,omitempty"`
}

type compileResult struct {
	err        error
	panicked   any
	paths      []string          // Path() of descs[i], "" when nil
	files      map[string][]byte // deterministic encoding of every file in the closure of the results
	returned   bool
	refTrouble string
}

func encodeClosure(files linker.Files) (map[string][]byte, []string) {
	out := map[string][]byte{}
	paths := make([]string, len(files))
	var walk func(fd protoreflect.FileDescriptor)
	walk = func(fd protoreflect.FileDescriptor) {
		if _, ok := out[fd.Path()]; ok {
			return
		}
		fdp := protoutil.ProtoFromFileDescriptor(fd)
		b, err := proto.MarshalOptions{Deterministic: true}.Marshal(fdp)
		if err != nil {
			b = []byte("marshal error: " + err.Error())
		}
		out[fd.Path()] = b
		imps := fd.Imports()
		for i := 0; i < imps.Len(); i++ {
			walk(imps.Get(i).FileDescriptor)
		}
	}
	for i, f := range files {
		if f == nil {
			continue
		}
		paths[i] = f.Path()
		walk(f)
	}
	return out, paths
}

func mapResolver(src map[string]string) protocompile.Resolver {
	return protocompile.WithStandardImports(protocompile.ResolverFunc(func(path string) (protocompile.SearchResult, error) {
		text, ok := src[path]
		if !ok {
			return protocompile.SearchResult{}, errNotFound
		}
		return protocompile.SearchResult{Source: strings.NewReader(text)}, nil
	}))
}

// doCompile performs one Compile call and summarises it. It recovers a panic
// on the caller's goroutine (which would otherwise kill the process) so that
// it can be reported.
func doCompile(ctx context.Context, c *protocompile.Compiler, names []string) (res compileResult) {
	defer func() {
		if p := recover(); p != nil {
			res.panicked = p
			res.returned = true
		}
	}()
	files, err := c.Compile(ctx, names...)
	res.err = err
	res.returned = true
	if err == nil {
		res.files, res.paths = encodeClosure(files)
	}
	return res
}

// refCompile is the unsimulated reference: MaxParallelism 1, sorted unique
// request, no hooks.
func refCompile(wl *CompileWL, request []string, srcInfo int, rep reporter.Reporter) compileResult {
	uniq := map[string]bool{}
	var names []string
	for _, n := range request {
		if !uniq[n] {
			uniq[n] = true
			names = append(names, n)
		}
	}
	sort.Strings(names)
	c := &protocompile.Compiler{
		Resolver:       mapResolver(wl.sources()),
		MaxParallelism: 1,
		SourceInfoMode: protocompile.SourceInfoMode(srcInfo),
		Reporter:       rep,
	}
	var res compileResult
	if msg := quiesced(func() { res = doCompile(context.Background(), c, names) }); msg != "" {
		res.refTrouble = msg
	}
	return res
}

// quiesced runs fn (unsimulated, hooks off) inside its own synctest bubble so
// that it returns only after every goroutine fn started has exited: straggler
// tasks of a failed reference compile must not run into the next simulation.
// A non-empty result means the bubble deadlocked (fn never returned, or left
// goroutines blocked for ever); that is reported as a violation by callers.
func quiesced(fn func()) (trouble string) {
	defer func() {
		if r := recover(); r != nil {
			trouble = fmt.Sprint(r)
		}
	}()
	synctest.Test(refT, func(*testing.T) { fn() })
	return ""
}

// refTroubleVerdict maps a deadlocked/leaking unsimulated run to a violation.
func refTroubleVerdict(prop string, res compileResult) *Verdict {
	if res.refTrouble == "" {
		return nil
	}
	if !res.returned {
		return viol(prop+"/unsimulated-deadlock", "unsimulated Compile (MaxParallelism=1, no hooks) never returned: %s", res.refTrouble)
	}
	return viol(prop+"/unsimulated-goroutine-leak", "unsimulated Compile returned but left goroutines blocked for ever: %s", res.refTrouble)
}

var refT *testing.T

func stepBudget(wl *CompileWL) int {
	edges := 0
	for _, f := range wl.Files {
		edges += len(f.Imports)
	}
	b := 400 + 80*len(wl.Files)*(edges+1)
	if b > 30000 {
		b = 30000
	}
	return b
}

func bubbleCfg(sc *Sched, budget int) sim.BubbleConfig {
	return sim.BubbleConfig{
		Tape:       sc.Tape,
		Disabled:   setOf(sc.Disabled),
		Victim:     sc.Victim,
		MaxSteps:   budget,
		WakePoints: compileWake,
		PCT:        sc.PCT,
		Tail:       sc.Tail,
	}
}

// diffResults compares a simulated result with the reference. Only
// success/failure, result paths and descriptor bytes are compared: which error
// wins is legitimately schedule-dependent.
func diffResults(prop string, ref, got compileResult, request []string) *Verdict {
	if got.panicked != nil {
		return viol(prop+"/compile-panicked-on-caller", "Compile panicked on the calling goroutine: %v", got.panicked)
	}
	if (ref.err == nil) != (got.err == nil) {
		return viol(prop+"/outcome-differs", "reference (parallelism 1, unsimulated) err=%v, simulated err=%v", ref.err, got.err)
	}
	if got.err != nil {
		return nil
	}
	for i, n := range request {
		if got.paths[i] != n {
			return viol(prop+"/result-order", "result %d is %q, requested %q", i, got.paths[i], n)
		}
	}
	if len(ref.files) != len(got.files) {
		return viol(prop+"/descriptor-bytes-differ", "closure has %d files, reference %d", len(got.files), len(ref.files))
	}
	var names []string
	for n := range ref.files {
		names = append(names, n)
	}
	sort.Strings(names)
	for _, n := range names {
		if string(ref.files[n]) != string(got.files[n]) {
			return viol(prop+"/descriptor-bytes-differ", "descriptor of %s differs from the reference (%d vs %d bytes)", n, len(got.files[n]), len(ref.files[n]))
		}
	}
	return nil
}

func hangVerdict(prop string, out *sim.Outcome) *Verdict {
	switch {
	case out.Deadlock:
		return viol(prop+"/deadlock", "no goroutine can make progress and the call has not returned: %s", strings.Join(out.Stuck, "; ")).with(out)
	case out.Budget:
		return viol(prop+"/livelock", "decision budget exhausted after %d decisions", out.Decisions).with(out)
	case out.Leak:
		return viol(prop+"/goroutine-leak", "goroutines remain blocked after the call returned and everything was drained: %s", out.LeakInfo).with(out)
	}
	return nil
}

// closureOf returns the files reachable from roots through imports that
// exist, and whether any import in that closure is missing.
func closureOf(g map[string][]string, roots []string) (map[string]bool, bool) {
	seen := map[string]bool{}
	missing := false
	var visit func(n string)
	visit = func(n string) {
		if seen[n] {
			return
		}
		if _, ok := g[n]; !ok {
			if !strings.HasPrefix(n, "google/protobuf/") {
				missing = true
			}
			return
		}
		seen[n] = true
		for _, d := range g[n] {
			visit(d)
		}
	}
	for _, r := range roots {
		visit(r)
	}
	return seen, missing
}

// chunkReader delivers a source in pieces and can fail part-way.
type chunkReader struct {
	data        []byte
	pos         int
	chunks      []int // sizes; 0 means a (0, nil) read; exhausted => rest in one go
	ci          int
	failAt      int   // fail when pos >= failAt (if failErr/failPanic set); -1 never
	err         error // returned at failAt
	pan         any   // panicked at failAt
	onFire      func(kind string)
	eofWithData bool
	closeErr    error
	closed      int
}

func (r *chunkReader) Read(p []byte) (int, error) {
	if r.failAt >= 0 && r.pos >= r.failAt {
		if r.pan != nil {
			if r.onFire != nil {
				r.onFire("read-panic")
			}
			panic(r.pan)
		}
		if r.err != nil {
			if r.onFire != nil {
				r.onFire("read-error")
			}
			return 0, r.err
		}
	}
	if r.pos >= len(r.data) {
		return 0, io.EOF
	}
	n := len(r.data) - r.pos
	if r.ci < len(r.chunks) {
		c := r.chunks[r.ci]
		r.ci++
		if c == 0 {
			if r.onFire != nil {
				r.onFire("zero-read")
			}
			return 0, nil
		}
		if c < n {
			n = c
			if r.onFire != nil {
				r.onFire("short-read")
			}
		}
	}
	if r.failAt >= 0 && r.pos < r.failAt && r.pos+n > r.failAt {
		n = r.failAt - r.pos
	}
	if n > len(p) {
		n = len(p)
	}
	copy(p, r.data[r.pos:r.pos+n])
	r.pos += n
	if r.pos >= len(r.data) && r.eofWithData {
		if r.onFire != nil {
			r.onFire("eof-with-data")
		}
		return n, io.EOF
	}
	return n, nil
}

func (r *chunkReader) Close() error {
	r.closed++
	if r.closeErr != nil && r.onFire != nil {
		r.onFire("close-error")
	}
	return r.closeErr
}

var _ = fmt.Sprintf
var _ *testing.T
