//go:build verif

package props

import (
	"context"
	"fmt"
	"hash/fnv"
	"sort"

	"pgregory.net/rapid"

	"github.com/bufbuild/protocompile/experimental/incremental"

	"verifharness/sim"
)

// Hook points of experimental/incremental that a goroutine can reach after
// having been woken by somebody else.
var incrWake = map[string]bool{
	"i.task.entry": true, "i.acquired": true, "i.join.woke": true, "i.wait.woke": true,
}

var incrOptional = []string{
	"auto.",
	"i.run.rlock", "i.evict.entry", "i.acquire", "i.acquired", "i.release", "i.released", "i.cancelled",
	"i.resolve.deps", "i.join.released", "i.join.woke", "i.run.entry", "i.run.cas", "i.done.close", "i.done.closed",
	"i.wait.cycle", "i.wait.select", "i.wait.woke", "h.op", "h.key",
}

// GraphSpec is a generated query graph: node i depends on Deps[i], resolved in
// the groups given by Groups[i] (sizes of consecutive Resolve calls).
type GraphSpec struct {
	N      int     `json:"n"`
	Deps   [][]int `json:"deps"`
	Groups [][]int `json:"groups,omitempty"`
	// Dynamic[i]: query i drops its last dependency while its input version is
	// odd, so the dependency graph itself changes across evictions.
	Dynamic []bool `json:"dynamic,omitempty"`
}

type gqKey struct{ ID int }

type runTagKey struct{}

// observation is one Resolve (or Run) result as seen by a caller.
type observation struct {
	run     int
	caller  int // -1 = the Run call itself
	dep     int
	changed bool
	value   int64
	fatal   error
}

type panicVal struct {
	Node int
	Seq  int
	Run  int
	// ExecNo is the ordinal of the execution of Node that panicked.
	ExecNo int
}

// gworld is the simulated environment of one incremental-executor case.
type gworld struct {
	g          GraphSpec
	exec       *incremental.Executor
	input      []int64
	panicsLeft []int // node panics while > 0
	panicSeq   int
	thrown     []*panicVal

	execCount               []int
	executing               []bool
	memo                    []bool // model: key currently memoised
	executedBy              []int  // run tag of the execution that produced the current memo entry
	obs                     []observation
	viol                    *Verdict // first violation detected inside callbacks
	prop                    string
	nextRun                 int
	activeRuns              int
	probeLocks              bool
	runActive               map[int]bool
	usedDeps                [][]int // dependencies each query resolved in its last execution
	concurrentPanicPossible bool
}

func newWorld(prop string, g GraphSpec, par int) *gworld {
	w := &gworld{g: g, prop: prop, probeLocks: true, runActive: map[int]bool{}}
	w.exec = incremental.New(incremental.WithParallelism(int64(par)))
	w.input = make([]int64, g.N)
	w.panicsLeft = make([]int, g.N)
	w.execCount = make([]int, g.N)
	w.executing = make([]bool, g.N)
	w.memo = make([]bool, g.N)
	w.executedBy = make([]int, g.N)
	w.usedDeps = make([][]int, g.N)
	for i := range w.executedBy {
		w.executedBy[i] = -1
	}
	return w
}

func (w *gworld) fail(v *Verdict) {
	if w.viol == nil {
		w.viol = v
	}
}

type gquery struct {
	w  *gworld
	id int
}

// Key is a scheduling point too (see fdsQuery.Key).
func (q gquery) Key() any {
	sim.Yield("h.key", "")
	return gqKey{q.id}
}

func hashVals(id int, input int64, deps []int64) int64 {
	h := fnv.New64a()
	fmt.Fprintf(h, "%d|%d", id, input)
	for _, d := range deps {
		fmt.Fprintf(h, "|%d", d)
	}
	return int64(h.Sum64() >> 1)
}

// modelValue is the pure recomputation on the current inputs (DAG only).
// effDeps is the dependency list query id uses with its current input.
func (w *gworld) effDeps(id int) []int {
	deps := w.g.Deps[id]
	if id < len(w.g.Dynamic) && w.g.Dynamic[id] && len(deps) > 0 && w.input[id]%2 == 1 {
		return deps[:len(deps)-1]
	}
	return deps
}

func (w *gworld) modelValue(id int, cache map[int]int64) int64 {
	if v, ok := cache[id]; ok {
		return v
	}
	var dv []int64
	for _, d := range w.effDeps(id) {
		dv = append(dv, w.modelValue(d, cache))
	}
	v := hashVals(id, w.input[id], dv)
	cache[id] = v
	return v
}

func (q gquery) Execute(t *incremental.Task) (int64, error) {
	w := q.w
	run, _ := t.Context().Value(runTagKey{}).(int)
	if w.executing[q.id] || w.memo[q.id] {
		w.fail(viol(w.prop+"/executed-twice", "query %d executed (run %d) although it is already %s since its last eviction", q.id, run,
			map[bool]string{true: "executing", false: "memoised"}[w.executing[q.id]]))
	}
	if w.probeLocks && w.runActive[run] {
		// (A straggler of a cancelled Run may still execute after that Run has
		// returned and dropped its shared lock; only live runs are probed.)
		if canLock, _ := w.exec.VerifDirtyState(); canLock {
			w.fail(viol(w.prop+"/run-without-shared-lock", "query %d executes while the executor's eviction lock could be taken exclusively", q.id))
		}
	}
	w.executing[q.id] = true
	w.execCount[q.id]++
	defer func() { w.executing[q.id] = false }()

	deps := w.effDeps(q.id)
	w.usedDeps[q.id] = nil
	// The executor does not memoise what a query returned while the context of
	// its Run was done (cancelled by the caller, by a panic of another query, or
	// because the Run has already returned): the model does the same. Nothing
	// can change the context between this check and the executor's own, because
	// no scheduling point lies in between.
	dropped := func() bool { return t.Context().Err() != nil }
	groups := []int{len(deps)}
	if q.id < len(w.g.Groups) && len(w.g.Groups[q.id]) > 0 {
		groups = w.g.Groups[q.id]
	}
	var vals []int64
	pos := 0
	for _, n := range groups {
		if pos >= len(deps) {
			break
		}
		if pos+n > len(deps) || n <= 0 {
			n = len(deps) - pos
		}
		qs := make([]incremental.Query[int64], n)
		for i := 0; i < n; i++ {
			qs[i] = gquery{w, deps[pos+i]}
		}
		// (the dependency edges are recorded by Resolve whatever its outcome)
		w.usedDeps[q.id] = append(w.usedDeps[q.id], deps[pos:pos+n]...)
		rs, err := incremental.Resolve(t, qs...)
		if err != nil {
			if !dropped() {
				w.fail(viol(w.prop+"/resolve-failed-with-live-context", "Resolve called by query %d (run %d) returned %v although the context of the Run is not done", q.id, run, err))
			}
			return 0, err
		}
		for i, r := range rs {
			w.obs = append(w.obs, observation{run: run, caller: q.id, dep: deps[pos+i], changed: r.Changed, value: r.Value, fatal: r.Fatal})
			if r.Fatal != nil {
				if !dropped() {
					w.memo[q.id] = true
					w.executedBy[q.id] = run
				}
				return 0, r.Fatal
			}
			vals = append(vals, r.Value)
		}
		pos += n
	}
	if w.panicsLeft[q.id] > 0 {
		w.panicsLeft[q.id]--
		w.panicSeq++
		pv := &panicVal{Node: q.id, Seq: w.panicSeq, Run: run, ExecNo: w.execCount[q.id]}
		w.thrown = append(w.thrown, pv)
		sim.S().Fault("query-panic")
		panic(pv)
	}
	if dropped() {
		sim.S().Probe("result-dropped-run-cancelled")
	} else {
		w.memo[q.id] = true
		w.executedBy[q.id] = run
	}
	return hashVals(q.id, w.input[q.id], vals), nil
}

// runResult is what one Run call produced.
type runResult struct {
	tag      int
	roots    []int
	results  []incremental.Result[int64]
	err      error
	panicked any
	returned bool
}

// doRun performs one incremental.Run on the calling (client) goroutine.
func (w *gworld) doRun(ctx context.Context, roots []int) (rr runResult) {
	w.nextRun++
	rr.tag = w.nextRun
	rr.roots = roots
	w.activeRuns++
	w.runActive[rr.tag] = true
	defer func() {
		w.activeRuns--
		w.runActive[rr.tag] = false
		if p := recover(); p != nil {
			rr.panicked = p
			rr.returned = true
		}
	}()
	qs := make([]incremental.Query[int64], len(roots))
	for i, r := range roots {
		qs[i] = gquery{w, r}
	}
	ctx = context.WithValue(ctx, runTagKey{}, rr.tag)
	res, _, err := incremental.Run(ctx, w.exec, qs...)
	rr.results, rr.err, rr.returned = res, err, true
	for i, r := range res {
		w.obs = append(w.obs, observation{run: rr.tag, caller: -1, dep: roots[i], changed: r.Changed, value: r.Value, fatal: r.Fatal})
	}
	return rr
}

func (w *gworld) upClosure(keys []int) map[int]bool {
	out := map[int]bool{}
	var visit func(k int)
	visit = func(k int) {
		if out[k] {
			return
		}
		out[k] = true
		for c := 0; c < w.g.N; c++ {
			if !w.memo[c] {
				continue
			}
			for _, d := range w.usedDeps[c] {
				if d == k {
					visit(c)
				}
			}
		}
	}
	for _, k := range keys {
		visit(k)
	}
	return out
}

func (w *gworld) downClosure(keys []int) map[int]bool {
	out := map[int]bool{}
	var visit func(k int)
	visit = func(k int) {
		if out[k] {
			return
		}
		out[k] = true
		for _, d := range w.effDeps(k) {
			visit(d)
		}
	}
	for _, k := range keys {
		visit(k)
	}
	return out
}

// doEvict performs Evict / EvictWithCleanup and updates the model inside the
// exclusive section (the cleanup) or right after it.
func (w *gworld) doEvict(keys []int, bump bool) {
	anyKeys := make([]any, len(keys))
	for i, k := range keys {
		anyKeys[i] = gqKey{k}
	}
	apply := func() {
		// Only memoised keys are evicted ("keys that are not cached are ignored").
		var present []int
		for _, k := range keys {
			if w.memo[k] {
				present = append(present, k)
			}
		}
		for k := range w.upClosure(present) {
			w.memo[k] = false
		}
	}
	if bump {
		ran := false
		defer func() {
			if !ran {
				w.fail(viol(w.prop+"/cleanup-not-run", "EvictWithCleanup(%v) returned without having run its cleanup", keys))
			}
		}()
		w.exec.EvictWithCleanup(anyKeys, func() {
			ran = true
			if w.probeLocks {
				if _, canRLock := w.exec.VerifDirtyState(); canRLock {
					w.fail(viol(w.prop+"/cleanup-without-exclusive-lock", "the eviction cleanup runs while a Run could take the shared lock"))
				}
			}
			if w.activeRuns > 0 {
				sim.S().Probe("cleanup-while-run-started")
			}
			apply()
			for _, k := range keys {
				w.input[k]++
			}
		})
	} else {
		w.exec.Evict(anyKeys...)
		apply()
	}
	sim.S().Fault("evict")
}

func incrBubbleCfg(sc *Sched, w *gworld, budget int) sim.BubbleConfig {
	return sim.BubbleConfig{
		Tape:       sc.Tape,
		Disabled:   setOf(sc.Disabled),
		Victim:     sc.Victim,
		MaxSteps:   budget,
		WakePoints: incrWake,
		PCT:        sc.PCT,
		Tail:       sc.Tail,
		Guards: map[string]func() bool{
			// Executor.dirty is held (shared) by every Run for its whole duration; a
			// goroutine blocked on a mutex is invisible to synctest, so the
			// scheduler lets an eviction reach Lock only while the exclusive lock
			// can really be taken. That is decided by probing the real lock, not by
			// counting Runs, so that a Run that lets go of the lock too early is not
			// covered up by the guard.
			// Nor while goroutines that a cancelled Run left behind are still alive:
			// they hold no lock, and what an eviction does to the tasks they lead is
			// outside both the property and the model.
			"i.evict.lock": func() bool {
				if sim.SpawnedParked() {
					return false
				}
				canLock, _ := w.exec.VerifDirtyState()
				return canLock
			},
		},
	}
}

// genGraph draws a digraph on 2..maxN nodes. With dag=true every edge goes
// from a higher to a lower index.
func genGraph(t *rapid.T, maxN int, dag bool) GraphSpec {
	n := rapid.IntRange(2, maxN).Draw(t, "nodes")
	density := rapid.IntRange(2, 6).Draw(t, "density")
	g := GraphSpec{N: n, Deps: make([][]int, n), Groups: make([][]int, n)}
	for i := 0; i < n; i++ {
		for j := 0; j < n; j++ {
			if dag && j >= i {
				continue
			}
			if rapid.IntRange(0, 9).Draw(t, "edge") < density {
				g.Deps[i] = append(g.Deps[i], j)
			}
		}
		if dag {
			g.Dynamic = append(g.Dynamic, rapid.IntRange(0, 3).Draw(t, "dynamic") == 0)
		}
		// split the dependency list into consecutive Resolve calls
		left := len(g.Deps[i])
		for left > 0 {
			k := rapid.IntRange(1, left).Draw(t, "group")
			g.Groups[i] = append(g.Groups[i], k)
			left -= k
		}
	}
	return g
}

func genRoots(t *rapid.T, n int) []int {
	k := rapid.IntRange(1, 3).Draw(t, "nroots")
	roots := make([]int, k)
	for i := range roots {
		roots[i] = rapid.IntRange(0, n-1).Draw(t, "root")
	}
	return roots
}

func sortedKeys(m map[int]bool) []int {
	var out []int
	for k := range m {
		out = append(out, k)
	}
	sort.Ints(out)
	return out
}

func incrBudget(g *GraphSpec, units int) int {
	edges := 0
	for _, d := range g.Deps {
		edges += len(d)
	}
	b := 300 + 60*units*(edges+g.N+1)
	if b > 40000 {
		b = 40000
	}
	return b
}
