//go:build verif

package props

import (
	"context"
	"fmt"
	"sort"
	"strings"
	"testing"

	"pgregory.net/rapid"

	"github.com/bufbuild/protocompile"
	"github.com/bufbuild/protocompile/linker"

	"verifharness/sim"
)

// C16 (engine B part): splitting a file set across several compilations that
// share one symbol table finds a collision exactly when compiling them
// together does.
type C16BCase struct {
	WL         CompileWL  `json:"workload"`
	Groups     [][]string `json:"groups"`     // partition of the files into compilations
	Concurrent bool       `json:"concurrent"` // groups run as concurrent clients (their import closures are disjoint)
	Par        int        `json:"par"`
	Sched      Sched      `json:"sched"`
}

func components(wl *CompileWL) [][]string {
	parent := map[string]string{}
	var find func(x string) string
	find = func(x string) string {
		if parent[x] == "" || parent[x] == x {
			parent[x] = x
			return x
		}
		r := find(parent[x])
		parent[x] = r
		return r
	}
	for _, f := range wl.Files {
		find(f.Name)
		for _, d := range f.Imports {
			if strings.HasPrefix(d, "google/protobuf/") {
				continue
			}
			a, b := find(f.Name), find(d)
			if a != b {
				parent[a] = b
			}
		}
	}
	groups := map[string][]string{}
	for _, f := range wl.Files {
		r := find(f.Name)
		groups[r] = append(groups[r], f.Name)
	}
	var out [][]string
	for _, g := range groups {
		sort.Strings(g)
		out = append(out, g)
	}
	sort.Slice(out, func(i, j int) bool { return out[i][0] < out[j][0] })
	return out
}

func genC16B(t *rapid.T) C16BCase {
	var kinds []int
	if rapid.IntRange(0, 2).Draw(t, "collide") > 0 {
		kinds = []int{2, 3, 6, 7}
	}
	wl := genCompileWLKinds(t, 6, kinds)
	// (An overriding descriptor.proto is an implicit dependency that is not
	// visible in Imports(), so it cannot be handed on as the same object;
	// compiling it twice into one table is a documented redefinition.)
	wl.dropOverride()
	c := C16BCase{WL: wl, Par: []int{1, 2, 4}[rapid.IntRange(0, 2).Draw(t, "par")]}
	comps := components(&wl)
	k := rapid.IntRange(2, 3).Draw(t, "ngroups")
	if len(comps) >= 2 && rapid.IntRange(0, 1).Draw(t, "concurrent") == 0 {
		c.Concurrent = true
		c.Groups = make([][]string, k)
		for _, comp := range comps {
			g := rapid.IntRange(0, k-1).Draw(t, "compGroup")
			c.Groups[g] = append(c.Groups[g], comp...)
		}
	} else {
		c.Groups = make([][]string, k)
		for _, f := range wl.Files {
			g := rapid.IntRange(0, k-1).Draw(t, "fileGroup")
			c.Groups[g] = append(c.Groups[g], f.Name)
		}
	}
	var nonEmpty [][]string
	for _, g := range c.Groups {
		if len(g) > 0 {
			nonEmpty = append(nonEmpty, g)
		}
	}
	c.Groups = nonEmpty
	c.Sched = genSched(t, &wl, compileOptional, 300)
	return c
}

func isCollisionErr(err error) bool {
	if err == nil {
		return false
	}
	s := err.Error()
	return strings.Contains(s, "already defined") || strings.Contains(s, "extension with tag")
}

func collectLinked(files linker.Files, into map[string]linker.File) {
	var visit func(f linker.File)
	visit = func(f linker.File) {
		if f == nil || into[f.Path()] != nil {
			return
		}
		into[f.Path()] = f
		imps := f.Imports()
		for i := 0; i < imps.Len(); i++ {
			visit(f.FindImportByPath(imps.Get(i).Path()))
		}
	}
	for _, f := range files {
		visit(f)
	}
}

func execC16B(t *testing.T, c C16BCase) *Verdict {
	// (i) everything in one compilation with a fresh table
	ref := refCompile(&c.WL, c.WL.names(), 0, nil)
	if v := refTroubleVerdict("C16", ref); v != nil {
		return v
	}
	if ref.err != nil && !isCollisionErr(ref.err) {
		panic(sim.HarnessFault{Msg: fmt.Sprintf("C16 workload has a non-collision error: %v", ref.err)})
	}
	// (ii) split across compilations sharing one table
	syms := &linker.Symbols{}
	src := c.WL.sources()
	done := map[string]linker.File{} // results of earlier compilations, handed on as Desc
	errs := make([]error, len(c.Groups))
	returned := make([]bool, len(c.Groups))
	compileGroup := func(i int) {
		comp := &protocompile.Compiler{
			Resolver: protocompile.WithStandardImports(protocompile.ResolverFunc(func(path string) (protocompile.SearchResult, error) {
				if f := done[path]; f != nil && !c.Concurrent {
					return protocompile.SearchResult{Desc: f}, nil
				}
				text, ok := src[path]
				if !ok {
					return protocompile.SearchResult{}, errNotFound
				}
				return protocompile.SearchResult{Source: strings.NewReader(text)}, nil
			})),
			MaxParallelism: c.Par,
			Symbols:        syms,
		}
		files, err := comp.Compile(context.Background(), c.Groups[i]...)
		errs[i] = err
		returned[i] = true
		if err == nil && !c.Concurrent {
			collectLinked(files, done)
		}
	}
	var clients []sim.Client
	if c.Concurrent {
		for i := range c.Groups {
			i := i
			clients = append(clients, sim.Client{Name: fmt.Sprintf("c%d", i), Fn: func() { compileGroup(i) }})
		}
	} else {
		clients = append(clients, sim.Client{Name: "c0", Fn: func() {
			for i := range c.Groups {
				compileGroup(i)
				sim.Yield("h.between", "")
			}
		}})
	}
	sc := c.Sched
	if c.Concurrent {
		sc.Victim = ""
	}
	out := sim.RunBubble(t, bubbleCfg(&sc, stepBudget(&c.WL)*len(c.Groups)), clients, nil)
	st := sim.S()
	st.Sample(c, 3)
	st.Case(fmt.Sprintf("%v|%v|%v|%d", c.WL.Files, c.Groups, c.Concurrent, out.TraceHash), ref.err != nil)
	if c.Concurrent {
		st.Probe("mode:concurrent")
	} else {
		st.Probe("mode:sequential")
	}
	if v := hangVerdict("C16", out); v != nil {
		return v
	}
	splitCollision := false
	for i, err := range errs {
		if !returned[i] {
			return viol("C16/deadlock", "compilation %d did not return", i).with(out)
		}
		if err != nil {
			if !isCollisionErr(err) {
				return viol("C16/split-compile-fails-otherwise", "compilation %d of %v failed with a non-collision error although compiling everything together gives err=%v: %v", i, c.Groups[i], ref.err, err).with(out)
			}
			splitCollision = true
		}
	}
	switch {
	case ref.err != nil && !splitCollision:
		return viol("C16/split-misses-collision", "compiling all files together reports %q, but none of the compilations %v sharing one symbol table reported a collision", ref.err.Error(), c.Groups).with(out)
	case ref.err == nil && splitCollision:
		return viol("C16/split-reports-spurious-collision", "compiling all files together succeeds, but split into %v with a shared symbol table a collision is reported: %v", c.Groups, errs).with(out)
	}
	return nil
}

func TestC16B(t *testing.T) { runProp(t, "C16", genC16B, execC16B) }
