//go:build verif

package props

import (
	"context"
	"errors"
	"fmt"
	"github.com/petermattis/goid"
	"io"
	"io/fs"
	"runtime"
	"strings"
	"testing"

	"pgregory.net/rapid"

	"github.com/bufbuild/protocompile"

	"verifharness/sim"
)

// C07: faults and cancellation are contained.

// ResFault makes the Ordinal-th resolver call for Path fail.
type ResFault struct {
	Path    string `json:"path"`
	Ordinal int    `json:"ordinal"`
	Kind    string `json:"kind"` // "error" | "panic"
}

// ReadFault shapes how the source of Path (from the Ordinal-th resolver call)
// is delivered, and optionally fails it part-way.
type ReadFault struct {
	Path        string `json:"path"`
	Ordinal     int    `json:"ordinal"`
	Chunks      []int  `json:"chunks,omitempty"` // read sizes; 0 = a (0,nil) read
	FailAt      int    `json:"fail_at"`          // byte offset (clamped to the length); used when Kind != ""
	Kind        string `json:"kind,omitempty"`   // "" | "error" | "error-eof" (io.ErrUnexpectedEOF at a declaration boundary) | "panic"
	EOFWithData bool   `json:"eof_with_data,omitempty"`
	CloseErr    bool   `json:"close_err,omitempty"`
}

type C07Case struct {
	WL       CompileWL   `json:"workload"`
	Run      CompileRun  `json:"run"`
	SrcInfo  int         `json:"srcinfo"`
	Res      []ResFault  `json:"resolver_faults,omitempty"`
	Read     []ReadFault `json:"read_faults,omitempty"`
	CancelAt int         `json:"cancel_at"` // decision index of the cancellation event; -1 = never
	Sched    Sched       `json:"sched"`
	// ImportPaths non-empty: the files are served by a real
	// protocompile.SourceResolver with these import paths and a simulated
	// Accessor; Placement says under which import path each file lives. Fault
	// paths are then full candidate paths ("inc1/f0.proto").
	ImportPaths []string       `json:"import_paths,omitempty"`
	Placement   map[string]int `json:"placement,omitempty"`
}

type injErr struct{ what string }

func (e *injErr) Error() string { return "injected fault: " + e.what }

type panicToken struct{ what string }

type firedFault struct {
	kind      string
	path      string
	effective bool
	sentinel  error
	token     *panicToken
}

type faultResolver struct {
	src   map[string]string
	c     *C07Case
	calls map[string]int
	fired []firedFault
	// atReturn: the goroutines that existed when Compile returned (nil before).
	// A goroutine that is not among them and still asks for a file is work that
	// was started after Compile had returned.
	atReturn map[int64]bool
	lateWork string
}

func inDescriptorProbe() bool {
	pc := make([]uintptr, 24)
	n := runtime.Callers(2, pc)
	frames := runtime.CallersFrames(pc[:n])
	for {
		f, more := frames.Next()
		if strings.Contains(f.Function, "hasOverrideDescriptorProto") {
			return true
		}
		if !more {
			return false
		}
	}
}

func (r *faultResolver) fire(f firedFault) {
	r.fired = append(r.fired, f)
	sim.S().Fault(f.kind)
	if !f.effective {
		sim.S().Fault(f.kind + "(masked)")
	}
}

// access is the simulated Accessor of a real SourceResolver.
func (r *faultResolver) access(full string) (io.ReadCloser, error) {
	res, err := r.FindFileByPath(full)
	if err != nil {
		if err == errNotFound {
			return nil, fs.ErrNotExist
		}
		return nil, err
	}
	return res.Source.(io.ReadCloser), nil
}

func (r *faultResolver) FindFileByPath(path string) (protocompile.SearchResult, error) {
	if r.atReturn != nil && !r.atReturn[goid.Get()] && r.lateWork == "" {
		r.lateWork = fmt.Sprintf("%s (goroutine %s)", path, sim.CurrentName())
	}
	ord := r.calls[path]
	r.calls[path]++
	probe := inDescriptorProbe()
	std := strings.Contains(path, "google/protobuf/")
	for _, f := range r.c.Res {
		if f.Path != path || f.Ordinal != ord {
			continue
		}
		if f.Kind == "panic" {
			tok := &panicToken{fmt.Sprintf("resolver panic for %s#%d", path, ord)}
			r.fire(firedFault{kind: "resolver-panic", path: path, effective: !probe, token: tok})
			panic(tok)
		}
		e := &injErr{fmt.Sprintf("resolver error for %s#%d", path, ord)}
		// WithStandardImports falls back to the built-in descriptor, and the
		// descriptor.proto probe ignores failures.
		r.fire(firedFault{kind: "resolver-error", path: path, effective: !probe && !std, sentinel: e})
		return protocompile.SearchResult{}, e
	}
	text, ok := r.src[path]
	if !ok {
		return protocompile.SearchResult{}, errNotFound
	}
	rd := &chunkReader{data: []byte(text), failAt: -1}
	for _, f := range r.c.Read {
		if f.Path != path || f.Ordinal != ord {
			continue
		}
		rd.chunks = f.Chunks
		rd.eofWithData = f.EOFWithData
		if f.CloseErr {
			rd.closeErr = &injErr{"close error for " + path}
		}
		if f.Kind != "" {
			rd.failAt = f.FailAt
			if rd.failAt > len(rd.data) {
				rd.failAt = len(rd.data)
			}
			if f.Kind == "panic" {
				rd.pan = &panicToken{fmt.Sprintf("read panic for %s#%d at byte %d", path, ord, rd.failAt)}
			} else if f.Kind == "error-eof" {
				// a stream cut off between two top-level declarations, failing the way
				// truncated streams do in the standard library
				if i := strings.LastIndex(string(rd.data[:rd.failAt]), "}\n"); i >= 0 {
					rd.failAt = i + 2
				} else {
					rd.failAt = 0
				}
				rd.err = io.ErrUnexpectedEOF
			} else {
				rd.err = &injErr{fmt.Sprintf("read error for %s#%d at byte %d", path, ord, rd.failAt)}
			}
		}
		rd.onFire = func(kind string) {
			switch kind {
			case "read-error":
				r.fire(firedFault{kind: kind, path: path, effective: !probe, sentinel: rd.err})
			case "read-panic":
				r.fire(firedFault{kind: kind, path: path, effective: !probe, token: rd.pan.(*panicToken)})
			default:
				sim.S().Fault(kind)
			}
		}
	}
	return protocompile.SearchResult{Source: rd}, nil
}

func genC07(t *rapid.T) C07Case {
	wl := genCompileWL(t, 6, false)
	c := C07Case{WL: wl, CancelAt: -1}
	c.SrcInfo = srcInfoModes[rapid.IntRange(0, len(srcInfoModes)-1).Draw(t, "srcinfo")]
	c.Run = CompileRun{
		Par:     []int{1, 2, 4}[rapid.IntRange(0, 2).Draw(t, "par")],
		Request: genPermutation(t, genRequest(t, wl.names()), false),
		Symbols: rapid.IntRange(0, 3).Draw(t, "symbols") == 0,
	}
	paths := wl.names()
	if rapid.IntRange(0, 3).Draw(t, "sourceResolver") == 0 {
		n := rapid.IntRange(2, 3).Draw(t, "nImportPaths")
		for i := 0; i < n; i++ {
			c.ImportPaths = append(c.ImportPaths, fmt.Sprintf("inc%d", i))
		}
		c.Placement = map[string]int{}
		paths = nil
		for _, f := range wl.names() {
			d := rapid.IntRange(0, n-1).Draw(t, "placement")
			c.Placement[f] = d
			for i := 0; i <= d; i++ {
				paths = append(paths, c.ImportPaths[i]+"/"+f)
			}
		}
	}
	if wl.DescriptorOverride == "" && len(c.ImportPaths) == 0 {
		// (With an overriding descriptor.proto a resolver error for that path is
		// not benign: the compiler legitimately falls back to the built-in one.)
		paths = append(paths, "google/protobuf/descriptor.proto")
	}
	nf := rapid.IntRange(0, 3).Draw(t, "nfaults")
	for i := 0; i < nf; i++ {
		path := paths[rapid.IntRange(0, len(paths)-1).Draw(t, "faultPath")]
		ord := 0
		if rapid.IntRange(0, 5).Draw(t, "ord") == 0 {
			ord = 1
		}
		switch rapid.IntRange(0, 6).Draw(t, "faultKind") {
		case 0:
			c.Res = append(c.Res, ResFault{Path: path, Ordinal: ord, Kind: "error"})
		case 1:
			c.Res = append(c.Res, ResFault{Path: path, Ordinal: ord, Kind: "panic"})
		case 2:
			kind := "error"
			if rapid.IntRange(0, 2).Draw(t, "eofErr") == 0 {
				kind = "error-eof"
			}
			c.Read = append(c.Read, ReadFault{Path: path, Ordinal: ord, Kind: kind, FailAt: rapid.IntRange(0, 400).Draw(t, "failAt"), Chunks: genChunks(t)})
		case 3:
			c.Read = append(c.Read, ReadFault{Path: path, Ordinal: ord, Kind: "panic", FailAt: rapid.IntRange(0, 200).Draw(t, "failAt"), Chunks: genChunks(t)})
		case 4:
			c.Read = append(c.Read, ReadFault{Path: path, Ordinal: ord, Chunks: genChunks(t), EOFWithData: rapid.IntRange(0, 1).Draw(t, "eofData") == 0,
				CloseErr: rapid.IntRange(0, 1).Draw(t, "closeErr") == 0})
		default:
			if c.CancelAt < 0 {
				c.CancelAt = rapid.IntRange(0, 120).Draw(t, "cancelAt")
			}
		}
	}
	c.Sched = genSched(t, &wl, compileOptional, 300)
	return c
}

func genChunks(t *rapid.T) []int {
	n := rapid.IntRange(0, 6).Draw(t, "nchunks")
	out := make([]int, n)
	for i := range out {
		out[i] = rapid.IntRange(0, 40).Draw(t, "chunk")
	}
	return out
}

func execC07(t *testing.T, c C07Case) *Verdict {
	ref := refCompile(&c.WL, c.Run.Request, c.SrcInfo, nil)
	if v := refTroubleVerdict("C07", ref); v != nil {
		return v
	}
	if ref.err != nil {
		panic(sim.HarnessFault{Msg: fmt.Sprintf("C07 workload generator produced an invalid workload: %v", ref.err)})
	}
	fr := &faultResolver{src: c.WL.sources(), c: &c, calls: map[string]int{}}
	var resolver protocompile.Resolver = fr
	if len(c.ImportPaths) > 0 {
		placed := map[string]string{}
		for f, text := range fr.src {
			if d, ok := c.Placement[f]; ok {
				placed[c.ImportPaths[d]+"/"+f] = text
			} else {
				placed[c.ImportPaths[0]+"/"+f] = text // e.g. an overriding descriptor.proto
			}
		}
		fr.src = placed
		resolver = &protocompile.SourceResolver{ImportPaths: c.ImportPaths, Accessor: fr.access}
		sim.S().Probe("resolver:source-resolver")
	}
	var (
		res            compileResult
		cancelFn       context.CancelFunc
		preCancel      bool
		cancelFired    bool
		cancelInFlight bool // cancellation was delivered before Compile returned
		firedAtReturn  int
	)
	client := sim.Client{Name: "c0", Fn: func() {
		ctx, cancel := context.WithCancel(context.Background())
		cancelFn = cancel
		if preCancel {
			cancel()
		}
		comp := &protocompile.Compiler{
			Resolver:       protocompile.WithStandardImports(resolver),
			MaxParallelism: c.Run.Par,
			SourceInfoMode: protocompile.SourceInfoMode(c.SrcInfo),
		}
		res = doCompile(ctx, comp, c.Run.Request)
		firedAtReturn = len(fr.fired)
		fr.atReturn = sim.KnownGoroutines()
	}}
	var events []sim.Event
	if c.CancelAt >= 0 {
		events = append(events, sim.Event{At: c.CancelAt, Name: "cancel", Fn: func() {
			cancelFired = true
			if !res.returned {
				cancelInFlight = true
			}
			if cancelFn != nil {
				cancelFn()
			} else {
				preCancel = true
			}
			sim.S().Fault("cancel")
		}})
	}
	out := sim.RunBubble(t, bubbleCfg(&c.Sched, stepBudget(&c.WL)), []sim.Client{client}, events)
	st := sim.S()
	st.Sample(c, 3)
	nEff := 0
	for _, f := range fr.fired[:min(firedAtReturn, len(fr.fired))] {
		if f.effective {
			nEff++
		}
	}
	st.Case(fmt.Sprintf("%v|%v|%v|%v|%d|%d", c.WL.Files, c.Run, c.Res, c.Read, c.CancelAt, out.TraceHash), nEff > 0 || cancelInFlight)
	if v := hangVerdict("C07", out); v != nil {
		return v
	}
	if !res.returned {
		return viol("C07/deadlock", "Compile did not return").with(out)
	}
	if fr.lateWork != "" {
		return viol("C07/work-started-after-return", "after Compile had returned, a goroutine that did not exist at that moment asked the resolver for %s: compilation work is still being started", fr.lateWork).with(out)
	}
	if res.panicked != nil {
		return viol("C07/panic-escaped-to-caller", "Compile panicked on the calling goroutine instead of returning an error: %v", res.panicked).with(out)
	}
	before := fr.fired[:firedAtReturn]
	describe := func() string {
		var parts []string
		for _, f := range before {
			parts = append(parts, fmt.Sprintf("%s(%s,effective=%v)", f.kind, f.path, f.effective))
		}
		if cancelInFlight {
			parts = append(parts, "cancel")
		}
		return strings.Join(parts, ", ")
	}
	if res.err == nil {
		if nEff > 0 {
			return viol("C07/fault-swallowed", "Compile succeeded although these faults fired before it returned: %s", describe()).with(out)
		}
		if v := diffResults("C07", ref, res, c.Run.Request); v != nil {
			v.Detail = "after benign faults [" + describe() + "]: " + v.Detail
			return v.with(out)
		}
		st.Probe("outcome:success")
		return nil
	}
	// Failure: it must be attributable to something that was injected.
	attributed := false
	var pe protocompile.PanicError
	isPanicErr := errors.As(res.err, &pe)
	for _, f := range before {
		if f.sentinel != nil && errors.Is(res.err, f.sentinel) {
			attributed = true
		}
		if f.token != nil && isPanicErr && pe.Value == any(f.token) {
			attributed = true
		}
	}
	if cancelInFlight && errors.Is(res.err, context.Canceled) {
		attributed = true
		st.Probe("outcome:context-canceled")
	}
	if !attributed {
		return viol("C07/unattributable-error", "Compile failed with %q (%T) which is none of the injected faults [%s]", res.err.Error(), res.err, describe()).with(out)
	}
	if nEff == 1 && !cancelFired {
		for _, f := range before {
			if f.effective && f.token != nil {
				if !isPanicErr || pe.Value != any(f.token) {
					return viol("C07/panic-value-lost", "the only fault was %s(%s) but the error is %q (%T), not a PanicError carrying the panic value", f.kind, f.path, res.err.Error(), res.err).with(out)
				}
				st.Probe("outcome:panic-error-with-value")
			}
		}
	}
	st.Probe("outcome:error")
	return nil
}

func TestC07(t *testing.T) { runProp(t, "C07", genC07, execC07) }
