//go:build verif

package props

import (
	"errors"
	"fmt"
	"testing"

	"pgregory.net/rapid"

	"github.com/bufbuild/protocompile/ast"
	"github.com/bufbuild/protocompile/reporter"

	"verifharness/sim"
)

// C08 (engine R part): the Handler serialises every call into the reporter
// (decided by the race detector: the reporter below touches plain memory) and
// implements the abort latch and sub-handler views (decided against a model).

type C08ROp struct {
	Kind string `json:"kind"` // errf | warnf | plain | error | reporter-error
	Root bool   `json:"root"` // use the root handler instead of this worker's sub-handler
}

type C08RCase struct {
	Workers [][]C08ROp `json:"workers"`
	AbortAt int        `json:"abort_at"`
	Tape    []uint16   `json:"tape"`
}

func genC08R(t *rapid.T) C08RCase {
	var c C08RCase
	nw := rapid.IntRange(2, 4).Draw(t, "nworkers")
	for w := 0; w < nw; w++ {
		n := rapid.IntRange(1, 6).Draw(t, "nops")
		var ops []C08ROp
		for i := 0; i < n; i++ {
			op := C08ROp{Root: rapid.IntRange(0, 4).Draw(t, "root") == 0}
			switch rapid.IntRange(0, 9).Draw(t, "opKind") {
			case 0, 1, 2, 3:
				op.Kind = "errf"
			case 4, 5, 6:
				op.Kind = "warnf"
			case 7:
				op.Kind = "plain"
			case 8:
				op.Kind = "error"
			default:
				op.Kind = "reporter-error"
			}
			ops = append(ops, op)
		}
		c.Workers = append(c.Workers, ops)
	}
	c.AbortAt = rapid.IntRange(0, 6).Draw(t, "abortAt")
	c.Tape = genTape(t, 100)
	return c
}

type c08rCall struct {
	worker int
	op     C08ROp
	ret    error
}

type handlerModel struct {
	err          error
	errsReported bool
}

func (h *handlerModel) Error() error {
	if h.errsReported && h.err == nil {
		return reporter.ErrInvalidSource
	}
	return h.err
}

//go:norace
func recordC08R(calls *[]c08rCall, c c08rCall) { *calls = append(*calls, c) }

func execC08R(t *testing.T, c C08RCase) *Verdict {
	st := sim.S()
	st.Sample(c, 3)
	racesBefore := sim.RaceErrors()
	// The reporter deliberately uses plain, unsynchronised memory.
	var nErr, nWarn, afterAbort int
	var aborted error
	rep := reporter.NewReporter(func(e reporter.ErrorWithPos) error {
		if aborted != nil {
			afterAbort++
			return aborted
		}
		nErr++
		if c.AbortAt > 0 && nErr == c.AbortAt {
			aborted = &abortErr{nErr}
			return aborted
		}
		return nil
	}, func(reporter.ErrorWithPos) { nWarn++ })
	root := reporter.NewHandler(rep)
	subs := make([]*reporter.Handler, len(c.Workers))
	for i := range subs {
		subs[i] = root.SubHandler()
	}
	plainErrs := make([]error, len(c.Workers))
	for i := range plainErrs {
		plainErrs[i] = errors.New(fmt.Sprintf("plain error of worker %d", i))
	}
	var calls []c08rCall
	var workers []*sim.RWorker
	for wi, ops := range c.Workers {
		wi, ops := wi, ops
		workers = append(workers, &sim.RWorker{Name: fmt.Sprintf("w%d", wi), Fn: func() {
			span := ast.UnknownSpan(fmt.Sprintf("w%d.proto", wi))
			for _, op := range ops {
				sim.RYield("r.op")
				h := subs[wi]
				if op.Root {
					h = root
				}
				var ret error
				switch op.Kind {
				case "errf":
					ret = h.HandleErrorf(span, "error from worker %d", wi)
				case "warnf":
					h.HandleWarningf(span, "warning from worker %d", wi)
				case "plain":
					ret = h.HandleError(plainErrs[wi])
				case "error":
					ret = h.Error()
				case "reporter-error":
					ret = h.ReporterError()
				}
				recordC08R(&calls, c08rCall{wi, op, ret})
			}
		}})
	}
	out := sim.RunHBFree(sim.RConfig{Tape: c.Tape, MaxSteps: 2000}, workers)
	st.Case(fmt.Sprintf("%v|%d|%d", c.Workers, c.AbortAt, out.TraceHash), nErr > 0 && len(c.Workers) > 1)
	v := func(class, format string, args ...any) *Verdict {
		x := viol(class, format, args...)
		x.Trace, x.TraceHash = out.Trace, out.TraceHash
		return x
	}
	if out.Livelock || out.Budget {
		return v("C08/livelock", "workers cannot finish: %v", out.Stuck)
	}
	if len(out.Panics) > 0 {
		return v("C08/panic", "%s", out.DescribePanics())
	}
	if n := sim.RaceErrors() - racesBefore; n > 0 {
		return v("C08/reporter-called-concurrently", "the race detector reported %d race(s): the reporter (which uses plain memory) was entered without the handler's serialisation", n)
	}
	if afterAbort > 0 {
		return v("C08/error-after-abort", "%d error(s) reached the reporter after it had returned an error", afterAbort)
	}
	// Replay the calls, in the order they completed, against the model.
	mroot := &handlerModel{}
	msubs := make([]*handlerModel, len(c.Workers))
	for i := range msubs {
		msubs[i] = &handlerModel{}
	}
	mErrCalls, mWarnCalls := 0, 0
	var mAbort error
	rootHandle := func(positional bool, plain error) error {
		if mroot.err != nil {
			return mroot.err
		}
		if !positional {
			mroot.err = plain
			return plain
		}
		mroot.errsReported = true
		mErrCalls++
		if c.AbortAt > 0 && mErrCalls == c.AbortAt {
			mAbort = aborted
			mroot.err = mAbort
		}
		return mroot.err
	}
	for i, cl := range calls {
		var want error
		check := true
		switch cl.op.Kind {
		case "errf", "plain":
			positional := cl.op.Kind == "errf"
			want = rootHandle(positional, plainErrs[cl.worker])
			if !cl.op.Root {
				m := msubs[cl.worker]
				if positional {
					m.errsReported = true
				}
				m.err = want
			}
		case "warnf":
			mWarnCalls++
			check = false
		case "error":
			if cl.op.Root {
				want = mroot.Error()
			} else {
				want = msubs[cl.worker].Error()
			}
		case "reporter-error":
			if cl.op.Root {
				want = mroot.err
			} else {
				want = msubs[cl.worker].err
			}
		}
		if check && cl.ret != want {
			return v("C08/handler-result-differs-from-model", "call %d (worker %d, %s, root=%v) returned %v, the latch/sub-handler model says %v", i, cl.worker, cl.op.Kind, cl.op.Root, cl.ret, want)
		}
	}
	if nErr != mErrCalls || nWarn != mWarnCalls {
		return v("C08/reporter-call-count", "the reporter saw %d errors and %d warnings, the model %d and %d", nErr, nWarn, mErrCalls, mWarnCalls)
	}
	return nil
}

func TestC08R(t *testing.T) {
	sim.InstallR()
	runProp(t, "C08", genC08R, execC08R)
}
