//go:build verif

package props

import (
	"errors"
	"fmt"
	"strings"
	"testing"
	"time"

	"github.com/anishathalye/porcupine"

	"pgregory.net/rapid"

	"github.com/bufbuild/protocompile/ast"
	"github.com/bufbuild/protocompile/reporter"

	"verifharness/sim"
)

// C08 (engine R part): the Handler serialises every call into the reporter
// (decided by the race detector: the reporter below touches plain memory) and
// implements the abort latch and sub-handler views (decided against a model).

type C08ROp struct {
	Kind string `json:"kind"` // errf | warnf | plain | error | reporter-error
	Root bool   `json:"root"` // use the root handler instead of this worker's sub-handler
}

type C08RCase struct {
	Workers [][]C08ROp `json:"workers"`
	AbortAt int        `json:"abort_at"`
	Tape    []uint16   `json:"tape"`
	// Disabled may contain "auto." to switch off the yield points that the
	// build inserts before every mutex acquisition of reporter.go.
	Disabled []string `json:"disabled,omitempty"`
}

func genC08R(t *rapid.T) C08RCase {
	var c C08RCase
	nw := rapid.IntRange(2, 4).Draw(t, "nworkers")
	for w := 0; w < nw; w++ {
		n := rapid.IntRange(1, 6).Draw(t, "nops")
		var ops []C08ROp
		for i := 0; i < n; i++ {
			op := C08ROp{Root: rapid.IntRange(0, 4).Draw(t, "root") == 0}
			switch rapid.IntRange(0, 9).Draw(t, "opKind") {
			case 0, 1, 2, 3:
				op.Kind = "errf"
			case 4, 5, 6:
				op.Kind = "warnf"
			case 7:
				op.Kind = "plain"
			case 8:
				op.Kind = "error"
			default:
				op.Kind = "reporter-error"
			}
			ops = append(ops, op)
		}
		c.Workers = append(c.Workers, ops)
	}
	c.AbortAt = rapid.IntRange(0, 6).Draw(t, "abortAt")
	c.Tape = genTape(t, 100)
	if rapid.IntRange(0, 2).Draw(t, "autoOff") == 0 {
		c.Disabled = []string{"auto."}
	}
	return c
}

type c08rIn struct {
	Worker int
	Kind   string
	Root   bool
}

// c08rState is the sequential model of a root handler with per-goroutine
// sub-handlers. Errors are small codes: 0 nil, 1 the reporter's abort error,
// 2 ErrInvalidSource, 10+i the non-positional error of worker i.
type c08rState struct {
	RootErr int
	RootRep bool
	SubErr  [4]int
	SubRep  [4]bool
	NErr    int
}

func c08rModel(abortAt int) porcupine.Model {
	return porcupine.Model{
		Init: func() interface{} { return c08rState{} },
		Step: func(state, input, output interface{}) (bool, interface{}) {
			st := state.(c08rState)
			in := input.(c08rIn)
			out := output.(int)
			switch in.Kind {
			case "errf", "plain":
				ret := st.RootErr
				if ret == 0 {
					if in.Kind == "errf" {
						st.RootRep = true
						st.NErr++
						if abortAt > 0 && st.NErr == abortAt {
							st.RootErr = 1
						}
						ret = st.RootErr
					} else {
						st.RootErr = 10 + in.Worker
						ret = st.RootErr
					}
				}
				if !in.Root {
					if in.Kind == "errf" {
						st.SubRep[in.Worker] = true
					}
					st.SubErr[in.Worker] = ret
				}
				return out == ret, st
			case "warnf":
				return true, st
			case "error":
				e, rep := st.RootErr, st.RootRep
				if !in.Root {
					e, rep = st.SubErr[in.Worker], st.SubRep[in.Worker]
				}
				if rep && e == 0 {
					e = 2
				}
				return out == e, st
			case "reporter-error":
				e := st.RootErr
				if !in.Root {
					e = st.SubErr[in.Worker]
				}
				return out == e, st
			}
			return false, st
		},
		DescribeOperation: func(input, output interface{}) string { return fmt.Sprintf("%+v -> %v", input, output) },
	}
}

func execC08R(t *testing.T, c C08RCase) *Verdict {
	st := sim.S()
	st.Sample(c, 3)
	racesBefore := sim.RaceErrors()
	// The reporter deliberately uses plain, unsynchronised memory.
	var nErr, nWarn, afterAbort int
	var aborted error
	rep := reporter.NewReporter(func(e reporter.ErrorWithPos) error {
		if aborted != nil {
			afterAbort++
			return aborted
		}
		nErr++
		if c.AbortAt > 0 && nErr == c.AbortAt {
			aborted = &abortErr{nErr}
			return aborted
		}
		return nil
	}, func(reporter.ErrorWithPos) { nWarn++ })
	root := reporter.NewHandler(rep)
	subs := make([]*reporter.Handler, len(c.Workers))
	for i := range subs {
		subs[i] = root.SubHandler()
	}
	plainErrs := make([]error, len(c.Workers))
	for i := range plainErrs {
		plainErrs[i] = errors.New(fmt.Sprintf("plain error of worker %d", i))
	}
	hist := &internHist{}
	abortedErr := func() *abortErr { return abortedPtr(&aborted) }
	var workers []*sim.RWorker
	for wi, ops := range c.Workers {
		wi, ops := wi, ops
		workers = append(workers, &sim.RWorker{Name: fmt.Sprintf("w%d", wi), Fn: func() {
			span := ast.UnknownSpan(fmt.Sprintf("w%d.proto", wi))
			for _, op := range ops {
				sim.RYield("r.op")
				h := subs[wi]
				if op.Root {
					h = root
				}
				var ret error
				callStamp := hist.tick()
				switch op.Kind {
				case "errf":
					ret = h.HandleErrorf(span, "error from worker %d", wi)
				case "warnf":
					h.HandleWarningf(span, "warning from worker %d", wi)
				case "plain":
					ret = h.HandleError(plainErrs[wi])
				case "error":
					ret = h.Error()
				case "reporter-error":
					ret = h.ReporterError()
				}
				retStamp := hist.tick()
				code := 99
				switch {
				case ret == nil:
					code = 0
				case ret == error(abortedErr()):
					code = 1
				case ret == reporter.ErrInvalidSource:
					code = 2
				default:
					for i, pe := range plainErrs {
						if ret == pe {
							code = 10 + i
						}
					}
				}
				hist.add(porcupine.Operation{ClientId: wi, Input: c08rIn{wi, op.Kind, op.Root}, Call: callStamp, Output: code, Return: retStamp})
			}
		}})
	}
	out := sim.RunHBFree(sim.RConfig{Tape: c.Tape, Disabled: setOf(c.Disabled), MaxSteps: 2000}, workers)
	st.Case(fmt.Sprintf("%v|%d|%d", c.Workers, c.AbortAt, out.TraceHash), nErr > 0 && len(c.Workers) > 1)
	v := func(class, format string, args ...any) *Verdict {
		x := viol(class, format, args...)
		x.Trace, x.TraceHash = out.Trace, out.TraceHash
		return x
	}
	if out.Livelock || out.Budget {
		return v("C08/livelock", "workers cannot finish: %v", out.Stuck)
	}
	if len(out.Panics) > 0 {
		return v("C08/panic", "%s", out.DescribePanics())
	}
	if n := sim.RaceErrors() - racesBefore; n > 0 {
		return v("C08/reporter-called-concurrently", "the race detector reported %d race(s): the reporter (which uses plain memory) was entered without the handler's serialisation", n)
	}
	if afterAbort > 0 {
		return v("C08/error-after-abort", "%d error(s) reached the reporter after it had returned an error", afterAbort)
	}
	// The operations are not atomic (the build puts a scheduling point before
	// every lock acquisition of reporter.go), so the recorded history is checked
	// for linearizability against the latch/sub-handler model.
	switch porcupine.CheckOperationsTimeout(c08rModel(c.AbortAt), hist.ops, 20*time.Second) {
	case porcupine.Illegal:
		var lines []string
		for _, op := range hist.ops {
			lines = append(lines, fmt.Sprintf("w%d [%d,%d] %+v -> %v", op.ClientId, op.Call, op.Return, op.Input, op.Output))
		}
		return v("C08/handler-history-not-linearizable", "no sequential execution of the abort-latch / sub-handler model explains what the callers saw (abort at error %d; codes: 0 nil, 1 abort error, 2 ErrInvalidSource, 10+i plain error of worker i):\n%s", c.AbortAt, strings.Join(lines, "\n"))
	case porcupine.Unknown:
		st.Probe("porcupine-timeout")
	}
	return nil
}

//go:norace
func abortedPtr(p *error) *abortErr {
	if *p == nil {
		return nil
	}
	a, _ := (*p).(*abortErr)
	return a
}

func TestC08R(t *testing.T) {
	sim.InstallR()
	runProp(t, "C08", genC08R, execC08R)
}
