//go:build verif

package props

import (
	"fmt"
	"strings"
	"testing"

	"google.golang.org/protobuf/reflect/protoreflect"
	"pgregory.net/rapid"

	"github.com/bufbuild/protocompile/ast"
	"github.com/bufbuild/protocompile/linker"
	"github.com/bufbuild/protocompile/reporter"

	"verifharness/sim"
)

// C16 (engine R part): one symbol table used by several goroutines at once,
// under the race detector, with the scheduler's hand-offs hidden from it.

type C16Op struct {
	Kind string `json:"kind"` // import | lookup | lookup-ext | add-ext | add-decl
	File string `json:"file,omitempty"`
	Name string `json:"name,omitempty"`
	Tag  int    `json:"tag,omitempty"`
}

type C16RCase struct {
	Workers  [][]C16Op `json:"workers"`
	Tape     []uint16  `json:"tape"`
	Disabled []string  `json:"disabled,omitempty"`
}

var symbolsHookPoints = []string{
	"auto.",
	"s.import.check", "s.importFile", "s.importPackage.r", "s.importPackage.w", "s.getPackage",
	"s.importResult", "s.addExtension", "s.addExtDecl", "s.lookup.read", "r.op",
}

func genC16R(t *rapid.T) C16RCase {
	symPoolOnce.Do(buildSymPool)
	var c C16RCase
	nw := rapid.IntRange(2, 4).Draw(t, "nworkers")
	for w := 0; w < nw; w++ {
		var ops []C16Op
		n := rapid.IntRange(1, 5).Draw(t, "nops")
		for i := 0; i < n; i++ {
			switch rapid.IntRange(0, 9).Draw(t, "opKind") {
			case 0, 1:
				ops = append(ops, C16Op{Kind: "lookup", Name: symUniverse[rapid.IntRange(0, len(symUniverse)-1).Draw(t, "name")]})
			case 2:
				e := extUniverse[rapid.IntRange(0, len(extUniverse)-1).Draw(t, "ext")]
				var tag int
				fmt.Sscan(e[1], &tag)
				ops = append(ops, C16Op{Kind: "lookup-ext", Name: e[0], Tag: tag})
			case 3:
				ops = append(ops, C16Op{Kind: "add-ext", Name: "a.Base", Tag: rapid.IntRange(100, 103).Draw(t, "tag")})
			case 4:
				ops = append(ops, C16Op{Kind: "add-decl", Name: []string{"q.e1", "q.e2"}[rapid.IntRange(0, 1).Draw(t, "decl")], Tag: rapid.IntRange(100, 101).Draw(t, "tag")})
			default:
				ops = append(ops, C16Op{Kind: "import", File: symPoolNames[rapid.IntRange(0, len(symPoolNames)-1).Draw(t, "file")]})
			}
		}
		c.Workers = append(c.Workers, ops)
	}
	c.Tape = genTape(t, 200)
	c.Disabled = genDisabled(t, symbolsHookPoints)
	return c
}

type c16Call struct {
	worker int
	op     C16Op
	err    error
	order  int // completion order
}

// filesConflict reports whether two pool files cannot both be in one table.
func filesConflict(f, g *symFile) bool {
	if f == g {
		return false
	}
	names := map[string]string{}
	for _, s := range f.symbols {
		names[s] = "symbol"
	}
	for _, p := range pkgPrefixes(f.pkg) {
		if names[p] == "" {
			names[p] = "package"
		}
	}
	for _, s := range g.symbols {
		if names[s] != "" {
			return true
		}
	}
	for _, p := range pkgPrefixes(g.pkg) {
		if names[p] == "symbol" {
			return true
		}
	}
	for _, e := range f.exts {
		for _, e2 := range g.exts {
			if e == e2 {
				return true
			}
		}
	}
	return false
}

func execC16R(t *testing.T, c C16RCase) *Verdict {
	symPoolOnce.Do(buildSymPool)
	syms := &linker.Symbols{}
	st := sim.S()
	st.Sample(c, 3)
	var calls []c16Call
	lookupSeen := map[string]bool{}
	racesBefore := sim.RaceErrors()
	var workers []*sim.RWorker
	for wi, ops := range c.Workers {
		wi, ops := wi, ops
		workers = append(workers, &sim.RWorker{Name: fmt.Sprintf("w%d", wi), Fn: func() {
			for _, op := range ops {
				sim.RYield("r.op")
				h := reporter.NewHandler(nil)
				var err error
				switch op.Kind {
				case "import":
					if f := symPool[op.File]; f != nil {
						err = syms.Import(f.fd, h)
					}
				case "lookup":
					_ = syms.Lookup(protoreflect.FullName(op.Name))
				case "lookup-ext":
					_ = syms.LookupExtension(protoreflect.FullName(op.Name), protoreflect.FieldNumber(op.Tag))
				case "add-ext":
					err = syms.AddExtension("a", protoreflect.FullName(op.Name), protoreflect.FieldNumber(op.Tag), ast.UnknownSpan(fmt.Sprintf("w%d", wi)), h)
				case "add-decl":
					err = syms.AddExtensionDeclaration(protoreflect.FullName(op.Name), "a.Base", protoreflect.FieldNumber(op.Tag), ast.UnknownSpan(fmt.Sprintf("w%d", wi)), h)
				}
				// calls is only appended to by the running worker; the scheduler
				// serialises workers, and the race detector does not see this slice
				// being shared because each worker appends through recordCall.
				recordCall(&calls, c16Call{worker: wi, op: op, err: err})
			}
		}})
	}
	disabled := setOf(c.Disabled)
	disabled["auto.reporter*"] = true // the handler is called with package locks held
	out := sim.RunHBFree(sim.RConfig{Tape: c.Tape, Disabled: disabled, MaxSteps: 4000}, workers)
	nimports, nfailed := 0, 0
	for i := range calls {
		calls[i].order = i
		if calls[i].op.Kind == "import" {
			nimports++
			if calls[i].err != nil {
				nfailed++
			}
		}
	}
	st.Case(fmt.Sprintf("%v|%d", c.Workers, out.TraceHash), nimports >= 2 && len(c.Workers) >= 2)
	v := func(class, format string, args ...any) *Verdict {
		x := viol(class, format, args...)
		x.Trace, x.TraceHash = out.Trace, out.TraceHash
		return x
	}
	if out.Livelock || out.Budget {
		return v("C16/livelock", "workers cannot finish: %v", out.Stuck)
	}
	if len(out.Panics) > 0 {
		return v("C16/panic", "%s", out.DescribePanics())
	}
	if n := sim.RaceErrors() - racesBefore; n > 0 {
		return v("C16/data-race", "the race detector reported %d data race(s) in a run whose only synchronisation is the symbol table's own (see the worker log for the report)", n)
	}
	// succeeded(F): some Import(F) call returned nil; failed(F): some call returned an error.
	accepted := map[string]bool{}
	failed := map[string]bool{}
	attempted := map[string]bool{}
	for _, cl := range calls {
		if cl.op.Kind != "import" {
			continue
		}
		attempted[cl.op.File] = true
		if cl.err != nil {
			failed[cl.op.File] = true
		} else {
			accepted[cl.op.File] = true
		}
	}
	_ = lookupSeen
	for f := range accepted {
		if !failed[f] {
			for _, s := range symPool[f].symbols {
				if syms.Lookup(protoreflect.FullName(s)) == nil {
					return v("C16/imported-symbol-lost", "every Import(%s) succeeded but Lookup(%q) finds nothing at the end", f, s)
				}
			}
		}
		// A collision between two attempted files is found when at least one
		// import call of either of them fails (which one is schedule-dependent).
		for g := range accepted {
			if f < g && !failed[f] && !failed[g] && filesConflict(symPool[f], symPool[g]) {
				return v("C16/collision-missed", "every Import(%s) and every Import(%s) succeeded although the two files collide", f, g)
			}
		}
	}
	// A file whose every import failed on a *name* collision must have left
	// nothing behind: none of the names only it defines may be visible.
	// (Extension-number collisions are the recorded finding of C17 and are not
	// judged here.)
	for f := range failed {
		if accepted[f] {
			continue
		}
		nameOnly := true
		for _, cl := range calls {
			if cl.op.Kind == "import" && cl.op.File == f && cl.err != nil {
				msg := cl.err.Error()
				if !strings.Contains(msg, "already defined") || strings.Contains(msg, "extension with tag") {
					nameOnly = false
				}
			}
		}
		if !nameOnly {
			continue
		}
		others := map[string]bool{}
		for g := range attempted {
			if g == f {
				continue
			}
			for _, x := range symPool[g].symbols {
				others[x] = true
			}
			for _, d := range symPool[g].deps {
				for _, x := range symPool[d].symbols {
					others[x] = true
				}
			}
		}
		for _, x := range symPool[f].symbols {
			if !others[x] && syms.Lookup(protoreflect.FullName(x)) != nil {
				return v("C16/failed-import-visible/name-collision", "every Import(%s) failed with a name collision, yet Lookup(%q) finds the symbol at the end", f, x)
			}
		}
	}
	// direct extension registrations: at most one success per (extendee, tag),
	// and none if an accepted file already owns the number
	okExt := map[string]int{}
	for _, cl := range calls {
		if cl.op.Kind == "add-ext" && cl.err == nil {
			k := fmt.Sprintf("%s#%d", cl.op.Name, cl.op.Tag)
			okExt[k]++
			if okExt[k] > 1 {
				return v("C16/extension-collision-missed", "AddExtension(%s) succeeded twice", k)
			}
			for f := range accepted {
				if failed[f] {
					continue
				}
				for _, e := range symPool[f].exts {
					if e[0] == cl.op.Name && e[1] == fmt.Sprint(cl.op.Tag) {
						return v("C16/extension-collision-missed", "AddExtension(%s) succeeded and so did every Import(%s), which uses the same number", k, f)
					}
				}
			}
		}
	}
	okDecl := map[string]int{}
	for _, cl := range calls {
		if cl.op.Kind == "add-decl" && cl.err == nil {
			if prev, seen := okDecl[cl.op.Name]; seen && prev != cl.op.Tag {
				return v("C16/declaration-collision-missed", "extension %s was declared with tags %d and %d, both accepted", cl.op.Name, prev, cl.op.Tag)
			}
			okDecl[cl.op.Name] = cl.op.Tag
		}
	}
	// no spurious collision: a failed import must be explainable by some other
	// attempted file (or direct registration) that collides with it or with one
	// of its dependencies
	for _, cl := range calls {
		if cl.op.Kind != "import" || cl.err == nil {
			continue
		}
		f := symPool[cl.op.File]
		explained := false
		family := append([]string{cl.op.File}, f.deps...)
		present := map[string]bool{}
		for g := range attempted {
			present[g] = true
			for _, d := range symPool[g].deps {
				present[d] = true
			}
		}
		for g := range present {
			for _, m := range family {
				if g != m && filesConflict(symPool[m], symPool[g]) {
					explained = true
				}
			}
		}
		for _, other := range calls {
			if other.op.Kind == "add-ext" {
				for _, e := range f.exts {
					if e[0] == other.op.Name && e[1] == fmt.Sprint(other.op.Tag) {
						explained = true
					}
				}
			}
		}
		if !explained {
			return v("C16/spurious-collision", "Import(%s) failed with %q but nothing that was attempted collides with it", cl.op.File, strings.TrimSpace(cl.err.Error()))
		}
	}
	if nfailed > 0 {
		st.Probe("collision-reported")
	}
	return nil
}

//go:norace
func recordCall(calls *[]c16Call, c c16Call) { *calls = append(*calls, c) }

func TestC16R(t *testing.T) {
	sim.InstallR()
	runProp(t, "C16", genC16R, execC16R)
}
