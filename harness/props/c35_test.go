//go:build verif

package props

import (
	"context"
	"encoding/json"
	"fmt"
	"testing"

	"pgregory.net/rapid"

	"verifharness/sim"
)

// C35: incremental recompilation equals batch compilation.
type C35Case struct {
	WL    CompileWL  `json:"workload"`
	Roots []string   `json:"workspace"`
	Par   int        `json:"par"`
	Steps []EditStep `json:"steps"`
	// Concurrent > 0: the edits are applied inside EvictWithCleanup's cleanup
	// (atomically with the eviction) while a second client compiles the
	// workspace Concurrent times on the same executor; each of its results must
	// be the batch result of one of the file states that existed while it ran.
	Concurrent int `json:"concurrent_compiles,omitempty"`
	// StallCleanup: the editing client stalls for this many decisions inside
	// the cleanup (with the exclusive lock held, if the executor holds it there).
	StallCleanup int   `json:"stall_in_cleanup,omitempty"`
	Sched        Sched `json:"sched"`
}

func genC35(t *rapid.T) C35Case {
	wl := genCompileWL(t, 5, rapid.IntRange(0, 3).Draw(t, "defects") == 0)
	wl.dropOverride() // (the experimental compiler takes descriptor.proto from source.WKTs())
	c := C35Case{WL: wl, Par: rapid.IntRange(1, 4).Draw(t, "par")}
	c.Roots = genRequest(t, wl.names())
	if rapid.IntRange(0, 4).Draw(t, "hub") == 0 {
		c.Roots = addHubClash(t, &wl)
		c.WL = wl
	}
	c.Steps = genEditSteps(t, &wl, rapid.IntRange(1, 5).Draw(t, "nsteps"))
	if rapid.IntRange(0, 3).Draw(t, "concurrent") == 0 {
		c.Concurrent = rapid.IntRange(1, 4).Draw(t, "nconcurrent")
		if rapid.IntRange(0, 1).Draw(t, "stall") == 0 {
			c.StallCleanup = rapid.IntRange(1, 300).Draw(t, "stallFor")
		}
	}
	c.Sched = Sched{Tape: genTape(t, 500), Disabled: genDisabled(t, incrOptional), PCT: genPCT(t, 200), Tail: genTail(t)}
	return c
}

func execC35(t *testing.T, c C35Case) *Verdict {
	st := sim.S()
	st.Sample(c, 2)
	// Batch oracle: a brand-new executor and session on the files as they are
	// after each step, unsimulated, each in its own quiesced bubble.
	batchDisk := &simOpener{files: c.WL.userSources(), transient: map[string]bool{}}
	var batch []expOutcome
	for step := -1; step < len(c.Steps); step++ {
		if step >= 0 {
			c.Steps[step].apply(batchDisk)
		}
		var o expOutcome
		if msg := quiesced(func() { o = newExpEnv(batchDisk.clone(), c.Roots, 1).compile(context.Background()) }); msg != "" {
			return viol("C35/batch-run-hangs", "brand-new executor at step %d: %s", step, msg)
		}
		batch = append(batch, o)
	}
	// The long-lived executor lives in one bubble for the whole history
	// (channels created in a bubble cannot be used from another one).
	disk := &simOpener{files: c.WL.userSources(), transient: map[string]bool{}}
	var v *Verdict
	nontrivial := false
	var long *expEnv
	stepsDone := 0 // number of edit steps applied to the disk so far
	inCleanup := false
	client := sim.Client{Name: "c0", Fn: func() {
		long = newExpEnv(disk, c.Roots, c.Par)
		for step := -1; step < len(c.Steps); step++ {
			kind := "initial compile"
			if step >= 0 {
				sim.Yield("h.op", "")
				if v != nil {
					return
				}
				if c.Concurrent > 0 {
					ran := false
					long.evictWith(c.Steps[step].Evict, func() {
						ran = true
						// A scheduling point inside the cleanup: anything that can run
						// now runs against the half-way state. (While the exclusive
						// lock is really held no Run can start: see the guard below.)
						inCleanup = true
						sim.Yield("h.cleanup", "")
						inCleanup = false
						c.Steps[step].apply(disk)
						stepsDone++
					})
					if !ran && v == nil {
						v = viol("C35/cleanup-not-run", "step %d (%s): EvictWithCleanup returned without having run the cleanup that applies the edit", step, c.Steps[step].Kind)
						return
					}
				} else {
					c.Steps[step].apply(disk)
					stepsDone++
					long.evict(c.Steps[step].Evict)
				}
				kind = c.Steps[step].Kind
				st.Fault("edit:" + firstWord(kind))
			}
			inc := long.compile(context.Background())
			b := batch[step+1]
			if b.ndiag > 0 && step >= 0 {
				nontrivial = true
			}
			if step >= 0 {
				if b.fatal == "" {
					st.Probe("step:batch-ok")
				} else {
					st.Probe("step:batch-fatal")
				}
			}
			if v = diffOutcome("C35", inc, b); v != nil {
				v.Detail = fmt.Sprintf("after step %d (%s): %s", step, kind, v.Detail)
				if textHasImportCycle(disk.files, c.Roots) && (v.Class == "C35/diagnostics-differ" || v.Class == "C35/diagnostics-order-differs") {
					// Which member of an import cycle reports the cycle depends on the
					// evaluation order; kept apart so that it can be listed precisely.
					v.Class += "-with-import-cycle"
				}
				return
			}
		}
	}}
	clients := []sim.Client{client}
	if c.Concurrent > 0 {
		clients = append(clients, sim.Client{Name: "c1", Fn: func() {
			for i := 0; i < c.Concurrent; i++ {
				sim.Yield("h.op", "")
				if long == nil || v != nil {
					continue
				}
				lo := stepsDone
				if inCleanup {
					st.Probe("compile-attempted-during-cleanup")
				}
				got := long.compile(context.Background())
				hi := stepsDone
				st.Probe("concurrent-compile")
				var first *Verdict
				ok := false
				for j := lo; j <= hi && !ok; j++ {
					d := diffOutcome("C35", got, batch[j])
					if d == nil {
						ok = true
					} else if first == nil {
						first = d
					}
				}
				if !ok && v == nil {
					v = first
					v.Detail = fmt.Sprintf("a compile running concurrently with the edits (file states %d..%d existed while it ran) matches none of them; against state %d: %s", lo, hi, lo, v.Detail)
					if textHasImportCycle(disk.files, c.Roots) && (v.Class == "C35/diagnostics-differ" || v.Class == "C35/diagnostics-order-differs") {
						v.Class += "-with-import-cycle"
					}
					return
				}
			}
		}})
	}
	cfg := incrBubbleCfg(&c.Sched, &gworld{}, 100000)
	if c.StallCleanup > 0 {
		cfg.Stall = map[string]int{"h.cleanup": c.StallCleanup}
	}
	cfg.Guards = map[string]func() bool{
		// an eviction reaches the executor's exclusive lock only while that lock
		// can really be taken and nothing a Run spawned is still alive (see incrBubbleCfg)
		"i.evict.lock": func() bool {
			if long == nil {
				return true
			}
			canLock, _ := long.exec.VerifDirtyState()
			return canLock && !sim.SpawnedParked()
		},
		// A Run reaches the executor's shared lock only while that lock can be
		// taken (it cannot while an eviction holds the exclusive lock across a
		// parked cleanup): decided by probing the real lock, not by a model, so
		// that an eviction that lets go of the lock too early is not covered up.
		"i.run.rlock": func() bool {
			if long == nil {
				return true
			}
			_, canRLock := long.exec.VerifDirtyState()
			return canRLock
		},
	}
	out := sim.RunBubble(t, cfg, clients, nil)
	stepsJSON, _ := json.Marshal(c.Steps)
	st.Case(fmt.Sprintf("%v|%v|%s|%d|%d", c.WL.Files, c.Roots, stepsJSON, c.Par, out.TraceHash), nontrivial || len(c.Steps) > 1)
	if hv := hangVerdict("C35", out); hv != nil {
		return hv
	}
	return v.with(out)
}

func firstWord(s string) string {
	for i, r := range s {
		if r == ' ' {
			return s[:i]
		}
	}
	return s
}

func TestC35(t *testing.T) { runProp(t, "C35", genC35, execC35) }
