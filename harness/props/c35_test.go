//go:build verif

package props

import (
	"context"
	"encoding/json"
	"fmt"
	"testing"

	"pgregory.net/rapid"

	"verifharness/sim"
)

// C35: incremental recompilation equals batch compilation.
type C35Case struct {
	WL    CompileWL  `json:"workload"`
	Roots []string   `json:"workspace"`
	Par   int        `json:"par"`
	Steps []EditStep `json:"steps"`
	Sched Sched      `json:"sched"`
}

func genC35(t *rapid.T) C35Case {
	wl := genCompileWL(t, 5, rapid.IntRange(0, 3).Draw(t, "defects") == 0)
	wl.dropOverride() // (the experimental compiler takes descriptor.proto from source.WKTs())
	c := C35Case{WL: wl, Par: rapid.IntRange(1, 4).Draw(t, "par")}
	c.Roots = genRequest(t, wl.names())
	if rapid.IntRange(0, 4).Draw(t, "hub") == 0 {
		c.Roots = addHubClash(t, &wl)
		c.WL = wl
	}
	c.Steps = genEditSteps(t, &wl, rapid.IntRange(1, 5).Draw(t, "nsteps"))
	c.Sched = Sched{Tape: genTape(t, 500), Disabled: genDisabled(t, incrOptional), PCT: genPCT(t, 200), Tail: genTail(t)}
	return c
}

func execC35(t *testing.T, c C35Case) *Verdict {
	st := sim.S()
	st.Sample(c, 2)
	// Batch oracle: a brand-new executor and session on the files as they are
	// after each step, unsimulated, each in its own quiesced bubble.
	batchDisk := &simOpener{files: c.WL.userSources(), transient: map[string]bool{}}
	var batch []expOutcome
	for step := -1; step < len(c.Steps); step++ {
		if step >= 0 {
			c.Steps[step].apply(batchDisk)
		}
		var o expOutcome
		if msg := quiesced(func() { o = newExpEnv(batchDisk.clone(), c.Roots, 1).compile(context.Background()) }); msg != "" {
			return viol("C35/batch-run-hangs", "brand-new executor at step %d: %s", step, msg)
		}
		batch = append(batch, o)
	}
	// The long-lived executor lives in one bubble for the whole history
	// (channels created in a bubble cannot be used from another one).
	disk := &simOpener{files: c.WL.userSources(), transient: map[string]bool{}}
	var v *Verdict
	nontrivial := false
	client := sim.Client{Name: "c0", Fn: func() {
		long := newExpEnv(disk, c.Roots, c.Par)
		for step := -1; step < len(c.Steps); step++ {
			kind := "initial compile"
			if step >= 0 {
				sim.Yield("h.op", "")
				c.Steps[step].apply(disk)
				long.evict(c.Steps[step].Evict)
				kind = c.Steps[step].Kind
				st.Fault("edit:" + firstWord(kind))
			}
			inc := long.compile(context.Background())
			b := batch[step+1]
			if b.ndiag > 0 && step >= 0 {
				nontrivial = true
			}
			if step >= 0 {
				if b.fatal == "" {
					st.Probe("step:batch-ok")
				} else {
					st.Probe("step:batch-fatal")
				}
			}
			if v = diffOutcome("C35", inc, b); v != nil {
				v.Detail = fmt.Sprintf("after step %d (%s): %s", step, kind, v.Detail)
				if textHasImportCycle(disk.files, c.Roots) && (v.Class == "C35/diagnostics-differ" || v.Class == "C35/diagnostics-order-differs") {
					// Which member of an import cycle reports the cycle depends on the
					// evaluation order; kept apart so that it can be listed precisely.
					v.Class += "-with-import-cycle"
				}
				return
			}
		}
	}}
	cfg := incrBubbleCfg(&c.Sched, &gworld{}, 100000)
	cfg.Guards = nil
	out := sim.RunBubble(t, cfg, []sim.Client{client}, nil)
	stepsJSON, _ := json.Marshal(c.Steps)
	st.Case(fmt.Sprintf("%v|%v|%s|%d|%d", c.WL.Files, c.Roots, stepsJSON, c.Par, out.TraceHash), nontrivial || len(c.Steps) > 1)
	if hv := hangVerdict("C35", out); hv != nil {
		return hv
	}
	return v.with(out)
}

func firstWord(s string) string {
	for i, r := range s {
		if r == ' ' {
			return s[:i]
		}
	}
	return s
}

func TestC35(t *testing.T) { runProp(t, "C35", genC35, execC35) }
