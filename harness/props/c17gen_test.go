//go:build verif

package props

import (
	"context"
	"encoding/json"
	"fmt"
	"sort"
	"strings"
	"sync"

	"google.golang.org/protobuf/proto"
	"google.golang.org/protobuf/reflect/protodesc"
	"google.golang.org/protobuf/reflect/protoreflect"
	"google.golang.org/protobuf/types/descriptorpb"
	"pgregory.net/rapid"

	"github.com/bufbuild/protocompile"
	"github.com/bufbuild/protocompile/linker"

	"verifharness/sim"
)

// Generated descriptor files for the C17 histories. The fixed pool of
// c17_test.go covers the collision kinds one by one; these files vary the
// shape: several packages, several extended messages in different packages,
// extensions in any order, dependency chains (a file may even collide with
// its own dependency, which only a descriptor built without the compiler can
// express), enum values, nested messages.

// GenExt is one extension field of a generated file.
type GenExt struct {
	Base int `json:"base"` // index into genBases
	Tag  int `json:"tag"`
}

// GenSymFile is the specification of one generated file.
type GenSymFile struct {
	Pkg    string   `json:"pkg"`
	Msgs   []string `json:"msgs,omitempty"`   // top-level messages ("Outer.Inner" nests Inner in Outer)
	Enums  []string `json:"enums,omitempty"`  // "Name:V1,V2" (values live in the file's package scope)
	Exts   []GenExt `json:"exts,omitempty"`   // in declaration order
	Deps   []int    `json:"deps,omitempty"`   // earlier generated files this one imports
	Source bool     `json:"source,omitempty"` // also usable as a linker result with source (when it compiles)
}

// genBases are the extendable messages (in three different packages) that
// generated extensions target; the files defining them are part of every pool.
var genBases = []struct{ file, pkg, msg string }{
	{"base.proto", "a", "Base"},
	{"gbase2.proto", "z", "Base2"},
	{"gbase3.proto", "a.b", "Base3"},
}

var genPkgs = []string{"", "a", "a.b", "c", "x", "x.y", "z", "m"}

// names that collide with each other, with packages (a, b, c, x, y, z) and
// with names of the fixed pool (X, Y, W, Common)
var genNames = []string{"X", "Y", "W", "a", "b", "c", "y", "z", "Common", "T", "T.In", "U"}
var genValues = []string{"X", "T", "V0", "V1", "W", "b"}

func genSymFiles(t *rapid.T) []GenSymFile {
	n := rapid.IntRange(0, 5).Draw(t, "ngen")
	files := make([]GenSymFile, n)
	for i := range files {
		f := &files[i]
		f.Pkg = genPkgs[rapid.IntRange(0, len(genPkgs)-1).Draw(t, "gpkg")]
		nm := rapid.IntRange(0, 3).Draw(t, "gnmsg")
		seen := map[string]bool{}
		// a marker that only this file defines, so that the file is never invisible
		f.Msgs = append(f.Msgs, fmt.Sprintf("G%d", i))
		for k := 0; k < nm; k++ {
			name := genNames[rapid.IntRange(0, len(genNames)-1).Draw(t, "gmsg")]
			if !seen[name] && !seen[strings.Split(name, ".")[0]] {
				seen[name] = true
				seen[strings.Split(name, ".")[0]] = true
				f.Msgs = append(f.Msgs, name)
			}
		}
		if rapid.IntRange(0, 2).Draw(t, "genum") == 0 {
			ename := fmt.Sprintf("En%d", i)
			var vals []string
			nv := rapid.IntRange(1, 2).Draw(t, "gnval")
			for k := 0; k < nv; k++ {
				v := genValues[rapid.IntRange(0, len(genValues)-1).Draw(t, "gval")]
				if !seen[v] {
					seen[v] = true
					vals = append(vals, v)
				}
			}
			if len(vals) > 0 {
				f.Enums = append(f.Enums, ename+":"+strings.Join(vals, ","))
			}
		}
		ne := rapid.IntRange(0, 3).Draw(t, "gnext")
		own := map[GenExt]bool{}
		for k := 0; k < ne; k++ {
			e := GenExt{Base: rapid.IntRange(0, len(genBases)-1).Draw(t, "gbase"), Tag: 100 + rapid.IntRange(0, 2).Draw(t, "gtag")}
			if !own[e] {
				own[e] = true
				f.Exts = append(f.Exts, e)
			}
		}
		for j := 0; j < i; j++ {
			if rapid.IntRange(0, 3).Draw(t, "gdep") == 0 {
				f.Deps = append(f.Deps, j)
			}
		}
		f.Source = rapid.IntRange(0, 2).Draw(t, "gsource") == 0
	}
	return files
}

func (f *GenSymFile) proto(idx int) *descriptorpb.FileDescriptorProto {
	fdp := &descriptorpb.FileDescriptorProto{
		Name:   proto.String(fmt.Sprintf("g%d.proto", idx)),
		Syntax: proto.String("proto2"),
	}
	if f.Pkg != "" {
		fdp.Package = proto.String(f.Pkg)
	}
	usedBase := map[int]bool{}
	for _, e := range f.Exts {
		usedBase[e.Base] = true
	}
	for b := range genBases {
		if usedBase[b] {
			fdp.Dependency = append(fdp.Dependency, genBases[b].file)
		}
	}
	for _, d := range f.Deps {
		fdp.Dependency = append(fdp.Dependency, fmt.Sprintf("g%d.proto", d))
	}
	field := func() *descriptorpb.FieldDescriptorProto {
		return &descriptorpb.FieldDescriptorProto{Name: proto.String("n"), Number: proto.Int32(1), JsonName: proto.String("n"),
			Label: descriptorpb.FieldDescriptorProto_LABEL_OPTIONAL.Enum(), Type: descriptorpb.FieldDescriptorProto_TYPE_INT32.Enum()}
	}
	for _, m := range f.Msgs {
		parts := strings.Split(m, ".")
		msg := &descriptorpb.DescriptorProto{Name: proto.String(parts[0]), Field: []*descriptorpb.FieldDescriptorProto{field()}}
		if len(parts) > 1 {
			msg.NestedType = append(msg.NestedType, &descriptorpb.DescriptorProto{Name: proto.String(parts[1]), Field: []*descriptorpb.FieldDescriptorProto{field()}})
		}
		fdp.MessageType = append(fdp.MessageType, msg)
	}
	for _, e := range f.Enums {
		name, vals, _ := strings.Cut(e, ":")
		en := &descriptorpb.EnumDescriptorProto{Name: proto.String(name)}
		for k, v := range strings.Split(vals, ",") {
			en.Value = append(en.Value, &descriptorpb.EnumValueDescriptorProto{Name: proto.String(v), Number: proto.Int32(int32(k))})
		}
		fdp.EnumType = append(fdp.EnumType, en)
	}
	for k, e := range f.Exts {
		b := genBases[e.Base]
		name := fmt.Sprintf("ge%d_%d", idx, k)
		fdp.Extension = append(fdp.Extension, &descriptorpb.FieldDescriptorProto{
			Name: proto.String(name), Number: proto.Int32(int32(e.Tag)),
			Label: descriptorpb.FieldDescriptorProto_LABEL_OPTIONAL.Enum(), Type: descriptorpb.FieldDescriptorProto_TYPE_INT32.Enum(),
			Extendee: proto.String("." + b.pkg + "." + b.msg),
		})
	}
	return fdp
}

// text renders the same file as source (for the linker-result form).
func (f *GenSymFile) text(idx int) string {
	var b strings.Builder
	b.WriteString("syntax = \"proto2\";\n")
	if f.Pkg != "" {
		fmt.Fprintf(&b, "package %s;\n", f.Pkg)
	}
	fdp := f.proto(idx)
	for _, d := range fdp.Dependency {
		fmt.Fprintf(&b, "import %q;\n", d)
	}
	for _, m := range f.Msgs {
		parts := strings.Split(m, ".")
		fmt.Fprintf(&b, "message %s {\n  optional int32 n = 1;\n", parts[0])
		if len(parts) > 1 {
			fmt.Fprintf(&b, "  message %s {\n    optional int32 n = 1;\n  }\n", parts[1])
		}
		b.WriteString("}\n")
	}
	for _, e := range f.Enums {
		name, vals, _ := strings.Cut(e, ":")
		fmt.Fprintf(&b, "enum %s {\n", name)
		for k, v := range strings.Split(vals, ",") {
			fmt.Fprintf(&b, "  %s = %d;\n", v, k)
		}
		b.WriteString("}\n")
	}
	for k, e := range f.Exts {
		bs := genBases[e.Base]
		fmt.Fprintf(&b, "extend .%s.%s {\n  optional int32 ge%d_%d = %d;\n}\n", bs.pkg, bs.msg, idx, k, e.Tag)
	}
	return b.String()
}

// symPoolT is one pool of importable files with the universe of names and
// extension numbers they define.
type symPoolT struct {
	files    map[string]*symFile
	names    []string
	universe []string
	exts     [][2]string
}

var (
	genBaseOnce  sync.Once
	genBaseFiles map[string]protoreflect.FileDescriptor
	genCacheMu   sync.Mutex
	genCache     = map[string]*symPoolT{}
)

type genFileResolver map[string]protoreflect.FileDescriptor

func (r genFileResolver) FindFileByPath(p string) (protoreflect.FileDescriptor, error) {
	if f, ok := r[p]; ok {
		return f, nil
	}
	return nil, errNotFound
}

func (r genFileResolver) FindDescriptorByName(n protoreflect.FullName) (protoreflect.Descriptor, error) {
	for _, f := range r {
		if !strings.HasPrefix(string(n), string(f.Package())) {
			continue
		}
		rel := strings.TrimPrefix(strings.TrimPrefix(string(n), string(f.Package())), ".")
		if !strings.Contains(rel, ".") {
			if d := f.Messages().ByName(protoreflect.Name(rel)); d != nil && d.FullName() == n {
				return d, nil
			}
		}
	}
	return nil, errNotFound
}

func buildGenBases() {
	symPoolOnce.Do(buildSymPool)
	genBaseFiles = map[string]protoreflect.FileDescriptor{"base.proto": symPool["base.proto/res"].fd}
	for _, b := range genBases[1:] {
		fdp := &descriptorpb.FileDescriptorProto{
			Name: proto.String(b.file), Package: proto.String(b.pkg), Syntax: proto.String("proto2"),
			MessageType: []*descriptorpb.DescriptorProto{{Name: proto.String(b.msg),
				ExtensionRange: []*descriptorpb.DescriptorProto_ExtensionRange{{Start: proto.Int32(100), End: proto.Int32(200)}}}},
		}
		fd, err := protodesc.NewFile(fdp, genFileResolver{})
		if err != nil {
			panic(err)
		}
		genBaseFiles[b.file] = fd
	}
}

// poolFor returns the fixed pool extended by the generated files of a case.
// Files that cannot be built (e.g. two elements with one name inside the file)
// are left out; that is decided by the specification alone.
func poolFor(gen []GenSymFile) *symPoolT {
	genBaseOnce.Do(buildGenBases)
	key, _ := json.Marshal(gen)
	genCacheMu.Lock()
	if p, ok := genCache[string(key)]; ok {
		genCacheMu.Unlock()
		return p
	}
	genCacheMu.Unlock()
	p := &symPoolT{files: map[string]*symFile{}}
	for n, f := range symPool {
		p.files[n] = f
	}
	add := func(name string, fd protoreflect.FileDescriptor, deps []string) {
		syms, exts := fileSymbols(fd)
		p.files[name] = &symFile{name: name, fd: fd, pkg: string(fd.Package()), symbols: syms, exts: exts, deps: deps}
	}
	for _, b := range genBases[1:] {
		add(b.file+"/pd", genBaseFiles[b.file], nil)
	}
	built := genFileResolver{}
	for k, v := range genBaseFiles {
		built[k] = v
	}
	depNames := map[string][]string{} // file path -> pool names of its dependencies
	poolName := map[string]string{"base.proto": "base.proto/res", "gbase2.proto": "gbase2.proto/pd", "gbase3.proto": "gbase3.proto/pd"}
	for i := range gen {
		f := &gen[i]
		fdp := f.proto(i)
		ok := true
		var deps []string
		for _, d := range fdp.Dependency {
			if built[d] == nil {
				ok = false // depends on a generated file that could not be built
				break
			}
			deps = append(deps, poolName[d])
		}
		if !ok {
			continue
		}
		fd, err := protodesc.NewFile(fdp, built)
		if err != nil {
			// the generator only produces well-formed files; anything else is a
			// mistake in it, not something to skip silently
			panic(sim.HarnessFault{Msg: fmt.Sprintf("C17 generated file %s cannot be built: %v", fdp.GetName(), err)})
		}
		var fdUse protoreflect.FileDescriptor = fd
		form := "/pd"
		if f.Source {
			c := &protocompile.Compiler{Resolver: protocompile.ResolverFunc(func(path string) (protocompile.SearchResult, error) {
				if path == fdp.GetName() {
					return protocompile.SearchResult{Source: strings.NewReader(f.text(i))}, nil
				}
				if d := built[path]; d != nil {
					return protocompile.SearchResult{Desc: d}, nil
				}
				return protocompile.SearchResult{}, errNotFound
			}), SourceInfoMode: protocompile.SourceInfoStandard}
			if fs, err := c.Compile(context.Background(), fdp.GetName()); err == nil {
				fdUse = fs[0]
				form = "/res"
			}
		}
		name := fdp.GetName() + form
		built[fdp.GetName()] = fdUse
		poolName[fdp.GetName()] = name
		depNames[name] = deps
		add(name, fdUse, deps)
	}
	seenSym := map[string]bool{}
	seenExt := map[[2]string]bool{}
	for n, f := range p.files {
		p.names = append(p.names, n)
		for _, s := range f.symbols {
			seenSym[s] = true
		}
		for _, e := range f.exts {
			seenExt[e] = true
		}
		for _, pr := range pkgPrefixes(f.pkg) {
			seenSym[pr] = true
		}
	}
	sort.Strings(p.names)
	for s := range seenSym {
		p.universe = append(p.universe, s)
	}
	sort.Strings(p.universe)
	for e := range seenExt {
		p.exts = append(p.exts, e)
	}
	sort.Slice(p.exts, func(i, j int) bool { return p.exts[i][0]+"#"+p.exts[i][1] < p.exts[j][0]+"#"+p.exts[j][1] })
	genCacheMu.Lock()
	if len(genCache) > 4000 {
		genCache = map[string]*symPoolT{}
	}
	genCache[string(key)] = p
	genCacheMu.Unlock()
	return p
}

var _ = linker.Symbols{}
