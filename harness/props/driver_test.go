//go:build verif

package props

import (
	"encoding/json"
	"fmt"
	"os"
	"path/filepath"
	"runtime"
	"strconv"
	"strings"
	"sync"
	"sync/atomic"
	"testing"
	"time"

	"pgregory.net/rapid"

	"verifharness/sim"
)

// Verdict is the result of executing one case. A nil *Verdict means the
// property held on this case.
type Verdict struct {
	Class     string   `json:"class"` // specific violation class, e.g. "C05/descriptor-bytes-differ"
	Detail    string   `json:"detail"`
	Trace     []string `json:"trace,omitempty"`
	TraceHash uint64   `json:"trace_hash"`
}

func viol(class, format string, args ...any) *Verdict {
	return &Verdict{Class: class, Detail: fmt.Sprintf(format, args...)}
}

func (v *Verdict) with(o *sim.Outcome) *Verdict {
	if v != nil && o != nil {
		v.Trace = o.Trace
		v.TraceHash = o.TraceHash
	}
	return v
}

// ReplayFile is what a violation is reported as: replaying it is a pure
// function of this file and the code.
type ReplayFile struct {
	Property  string          `json:"property"`
	Test      string          `json:"test,omitempty"`
	Class     string          `json:"class"`
	Detail    string          `json:"detail"`
	TraceHash uint64          `json:"trace_hash"`
	Trace     []string        `json:"trace,omitempty"`
	Crash     bool            `json:"crash,omitempty"`
	Case      json.RawMessage `json:"case"`
}

// harnessFaultExit is the exit status for simulator self-check failures (a Go
// panic exits with 2, a race report with 66; the orchestrator maps this one
// to its own exit status 2, never to a violation).
const harnessFaultExit = 3

var (
	known       = map[string]bool{}
	pinnedClass string
)

func init() {
	for _, k := range strings.Split(os.Getenv("VERIF_KNOWN"), ",") {
		if k = strings.TrimSpace(k); k != "" {
			known[k] = true
		}
	}
}

func workDir() string {
	d := os.Getenv("VERIF_WORK")
	if d == "" {
		d = os.TempDir()
	}
	return d
}

func workerTag() string {
	w := os.Getenv("VERIF_WORKER")
	if w == "" {
		w = "0"
	}
	return w
}

func writeJSON(path string, v any) {
	data, err := json.MarshalIndent(v, "", " ")
	if err != nil {
		panic(err)
	}
	if err := os.WriteFile(path, data, 0o644); err != nil {
		panic(err)
	}
}

// runProp is the common driver: seeded generation (rapid), execution,
// shrinking pinned to the first violation class, replay files, crash
// attribution, known-finding accounting.
func runProp[C any](t *testing.T, id string, gen func(*rapid.T) C, exec func(*testing.T, C) *Verdict) {
	refT = t
	startWatchdog()
	if path := os.Getenv("VERIF_REPLAY"); path != "" {
		replayProp(t, id, path, exec)
		return
	}
	cur := filepath.Join(workDir(), fmt.Sprintf("current-%s-%s.json", id, workerTag()))
	vio := filepath.Join(workDir(), fmt.Sprintf("violation-%s-%s.json", id, workerTag()))
	defer os.Remove(cur)
	rapid.Check(t, func(rt *rapid.T) {
		defer exitOnHarnessFault()
		c := gen(rt)
		raw, err := json.Marshal(c)
		if err != nil {
			panic(err)
		}
		_ = os.WriteFile(cur, raw, 0o644)
		caseStarted.Store(time.Now().UnixNano())
		v := exec(t, c)
		caseStarted.Store(0)
		if v == nil {
			return
		}
		if known[v.Class] {
			sim.S().Probe("known:" + v.Class)
			kf := filepath.Join(workDir(), fmt.Sprintf("known-%s-%s-%s.json", id, workerTag(), slug(v.Class)))
			if _, err := os.Stat(kf); err != nil {
				writeJSON(kf, ReplayFile{Property: id, Test: t.Name(), Class: v.Class, Detail: v.Detail, TraceHash: v.TraceHash, Trace: v.Trace, Case: raw})
			}
			return
		}
		if pinnedClass == "" {
			pinnedClass = v.Class
		} else if pinnedClass != v.Class {
			// While minimising, a different violation class does not count.
			return
		}
		writeJSON(vio, ReplayFile{Property: id, Test: t.Name(), Class: v.Class, Detail: v.Detail, TraceHash: v.TraceHash, Trace: v.Trace, Case: raw})
		rt.Fatalf("VIOLATION %s", v.Class)
	})
}

// caseTimeoutExit is the exit status when one case runs for too long in real
// time or allocates without bound: code under test that spins or grows for
// ever between two hook points cannot be seen by the simulated clock.
const caseTimeoutExit = 4

var (
	caseStarted  atomic.Int64
	watchdogOnce sync.Once
)

func startWatchdog() {
	watchdogOnce.Do(func() {
		limit := 30 * time.Second
		if s := os.Getenv("VERIF_CASE_TIMEOUT"); s != "" {
			if d, err := time.ParseDuration(s); err == nil {
				limit = d
			}
		}
		const heapLimit = 6 << 30
		go func() {
			var ms runtime.MemStats
			for {
				time.Sleep(250 * time.Millisecond)
				st := caseStarted.Load()
				if st == 0 {
					continue
				}
				why := ""
				if time.Since(time.Unix(0, st)) > limit {
					why = fmt.Sprintf("one case has been running for more than %v of real time", limit)
				} else {
					runtime.ReadMemStats(&ms)
					if ms.HeapAlloc > heapLimit {
						why = fmt.Sprintf("heap grew beyond %d GiB during one case", heapLimit>>30)
					}
				}
				if why == "" {
					continue
				}
				buf := make([]byte, 1<<20)
				n := runtime.Stack(buf, true)
				fmt.Printf("CASE-TIMEOUT: %s\n%s\n", why, buf[:n])
				sim.S().Flush()
				os.Exit(caseTimeoutExit)
			}
		}()
	})
}

// exitOnHarnessFault turns a simulator self-check failure into exit status 2
// before rapid can mistake it for a property failure.
func exitOnHarnessFault() {
	if r := recover(); r != nil {
		if hf, ok := r.(sim.HarnessFault); ok {
			fmt.Println(hf.Error())
			sim.S().Flush()
			os.Exit(harnessFaultExit)
		}
		panic(r)
	}
}

func slug(s string) string {
	return strings.Map(func(r rune) rune {
		if r >= 'a' && r <= 'z' || r >= 'A' && r <= 'Z' || r >= '0' && r <= '9' || r == '-' {
			return r
		}
		return '_'
	}, s)
}

func replayProp[C any](t *testing.T, id, path string, exec func(*testing.T, C) *Verdict) {
	data, err := os.ReadFile(path)
	if err != nil {
		fmt.Printf("REPLAY-ERROR cannot read %s: %v\n", path, err)
		os.Exit(2)
	}
	var rf ReplayFile
	if err := json.Unmarshal(data, &rf); err != nil {
		fmt.Printf("REPLAY-ERROR cannot parse %s: %v\n", path, err)
		os.Exit(2)
	}
	if rf.Property != id || (rf.Test != "" && rf.Test != t.Name()) {
		t.Skipf("replay file is for %s/%s", rf.Property, rf.Test)
	}
	var c C
	if err := json.Unmarshal(rf.Case, &c); err != nil {
		fmt.Printf("REPLAY-ERROR cannot parse case: %v\n", err)
		os.Exit(2)
	}
	raw, _ := json.Marshal(c)
	_ = os.WriteFile(filepath.Join(workDir(), fmt.Sprintf("current-%s-%s.json", id, workerTag())), raw, 0o644)
	v1 := exec(t, c)
	v2 := exec(t, c)
	if n, _ := strconv.Atoi(os.Getenv("VERIF_REPLAY_ATTEMPTS")); n > 0 {
		// The recorded violation was nondeterministic (the outcome of the same
		// case and schedule varies): any failing attempt reproduces it.
		for i := 0; i < n && v1 == nil; i++ {
			v1 = exec(t, c)
		}
		if v1 != nil {
			fmt.Printf("REPLAY-RESULT property=%s reproduced=true class=%s nondeterministic=true\n  detail: %s\n", id, v1.Class, v1.Detail)
			t.Fail()
			return
		}
		v2 = nil
	}
	switch {
	case v1 == nil && v2 == nil:
		fmt.Printf("REPLAY-RESULT property=%s reproduced=false (no violation on this tree)\n", id)
	case v1 == nil || v2 == nil || v1.Class != v2.Class || v1.TraceHash != v2.TraceHash:
		fmt.Printf("REPLAY-RESULT property=%s reproduced=flaky first=%+v second=%+v\n", id, v1, v2)
		t.Fail()
	default:
		same := v1.Class == rf.Class && (rf.Crash || v1.TraceHash == rf.TraceHash)
		fmt.Printf("REPLAY-RESULT property=%s reproduced=true class=%s trace_hash=%d identical_to_recorded=%v\n  detail: %s\n", id, v1.Class, v1.TraceHash, same, v1.Detail)
		for i, s := range v1.Trace {
			fmt.Printf("  step %3d: %s\n", i, s)
		}
		t.Fail()
	}
}

func TestMain(m *testing.M) {
	code := func() (code int) {
		defer func() {
			if r := recover(); r != nil {
				if hf, ok := r.(sim.HarnessFault); ok {
					fmt.Println(hf.Error())
					code = harnessFaultExit
					return
				}
				panic(r)
			}
		}()
		return m.Run()
	}()
	sim.S().Flush()
	os.Exit(code)
}
