//go:build verif

package props

import (
	"fmt"
	"sort"
	"strings"
	"testing"
	"time"

	"github.com/anishathalye/porcupine"
	"pgregory.net/rapid"

	"github.com/bufbuild/protocompile/verifhooks"

	"verifharness/sim"
)

// C38: string interning is a bijection, also under concurrency (engine R).

type C38Op struct {
	Kind string `json:"kind"` // intern | intern-bytes | query | value
	S    string `json:"s,omitempty"`
	Ref  int    `json:"ref,omitempty"` // value: index into the ids this worker has obtained so far
}

type C38Case struct {
	Workers  [][]C38Op `json:"workers"`
	Tape     []uint16  `json:"tape"`
	Disabled []string  `json:"disabled,omitempty"`
	// SpinBurst: goroutines waiting in a spin loop may run for this many steps
	// in a row although the goroutine they wait for could run (a stalled leader).
	SpinBurst int `json:"spin_burst,omitempty"`
}

var internStrings = []string{
	"", "a", "ab", "abcde", "a.b", "x_1", "Z9", // inline
	"abcdef", "foo.", "a.b.", "has space", "hello.world", "longer_string_1", "longer_string_2", "pkg.Message", "pkg.Message.field", // stored
	"\u00f1", "C1", ".\xae", "\xc3\xb1x", "a\x80", "\xff", // short, but not in the inline alphabet: stored (and their 7-bit look-alikes)
}

var internHookPoints = []string{
	"auto.",
	"n.intern.miss", "n.query.load", "n.query.id", "n.slow.los", "n.slow.append", "n.slow.commit",
	"l.load.mid", "l.append.reserved", "l.fast.write", "l.fast.len", "l.grow.ptr", "l.grow.cap", "l.grow.len", "r.op",
}

var internSpinPoints = map[string]bool{"n.slow.spin": true, "l.spin.cap": true, "l.spin.len": true, "l.spin.grow": true}

// inlineable is the documented rule: at most five characters of
// [0-9a-zA-Z_.], not ending in '.', are stored inline in the ID.
func inlineable(s string) bool {
	if s == "" {
		return true
	}
	if len(s) > 5 || strings.HasSuffix(s, ".") {
		return false
	}
	for i := 0; i < len(s); i++ {
		c := s[i]
		if !(c >= '0' && c <= '9' || c >= 'a' && c <= 'z' || c >= 'A' && c <= 'Z' || c == '_' || c == '.') {
			return false
		}
	}
	return true
}

func genC38(t *rapid.T) C38Case {
	var c C38Case
	nw := rapid.IntRange(2, 4).Draw(t, "nworkers")
	// a small per-case palette makes goroutines collide on the same strings
	np := rapid.IntRange(2, 6).Draw(t, "npalette")
	palette := make([]string, np)
	for i := range palette {
		palette[i] = internStrings[rapid.IntRange(0, len(internStrings)-1).Draw(t, "palette")]
	}
	for w := 0; w < nw; w++ {
		n := rapid.IntRange(2, 8).Draw(t, "nops")
		var ops []C38Op
		for i := 0; i < n; i++ {
			s := palette[rapid.IntRange(0, np-1).Draw(t, "str")]
			switch rapid.IntRange(0, 9).Draw(t, "opKind") {
			case 0, 1, 2:
				ops = append(ops, C38Op{Kind: "query", S: s})
			case 3, 4:
				ops = append(ops, C38Op{Kind: "value", Ref: rapid.IntRange(0, 7).Draw(t, "ref")})
			case 5:
				ops = append(ops, C38Op{Kind: "intern-bytes", S: s})
			default:
				ops = append(ops, C38Op{Kind: "intern", S: s})
			}
		}
		c.Workers = append(c.Workers, ops)
	}
	c.Tape = genTape(t, 400)
	if rapid.IntRange(0, 3).Draw(t, "spinBurst") == 0 {
		c.SpinBurst = rapid.IntRange(50, 600).Draw(t, "spinBurstLen")
	}
	c.Disabled = genDisabled(t, internHookPoints)
	return c
}

type internIn struct {
	Kind string
	S    string
	ID   int32
}

type internOut struct {
	ID int32
	OK bool
	S  string
}

// internModel is the sequential specification: a map from stored strings to
// positive IDs; inline strings are always present and never enter the map.
var internModel = porcupine.Model{
	Init: func() interface{} { return "" },
	Step: func(state, input, output interface{}) (bool, interface{}) {
		st := state.(string)
		in := input.(internIn)
		out := output.(internOut)
		m := decodeState(st)
		switch in.Kind {
		case "intern":
			if inlineable(in.S) {
				return out.ID <= 0, st
			}
			if id, ok := m[in.S]; ok {
				return out.ID == id, st
			}
			if out.ID <= 0 {
				return false, st
			}
			for _, used := range m {
				if used == out.ID {
					return false, st
				}
			}
			m[in.S] = out.ID
			return true, encodeState(m)
		case "query":
			if inlineable(in.S) {
				return out.OK && out.ID <= 0, st
			}
			if id, ok := m[in.S]; ok {
				return out.OK && out.ID == id, st
			}
			return !out.OK, st
		case "value":
			for s, id := range m {
				if id == in.ID {
					return out.S == s, st
				}
			}
			return false, st
		}
		return false, st
	},
	DescribeOperation: func(input, output interface{}) string {
		return fmt.Sprintf("%+v -> %+v", input, output)
	},
}

func decodeState(s string) map[string]int32 {
	m := map[string]int32{}
	if s == "" {
		return m
	}
	for _, kv := range strings.Split(s, "\x00") {
		i := strings.LastIndexByte(kv, '=')
		var id int32
		fmt.Sscan(kv[i+1:], &id)
		m[kv[:i]] = id
	}
	return m
}

func encodeState(m map[string]int32) string {
	var keys []string
	for k := range m {
		keys = append(keys, k)
	}
	sort.Strings(keys)
	parts := make([]string, len(keys))
	for i, k := range keys {
		parts[i] = fmt.Sprintf("%s=%d", k, m[k])
	}
	return strings.Join(parts, "\x00")
}

type internHist struct {
	ops []porcupine.Operation
	seq int64
}

//go:norace
func (h *internHist) tick() int64 { h.seq++; return h.seq }

//go:norace
func (h *internHist) add(op porcupine.Operation) { h.ops = append(h.ops, op) }

func execC38(t *testing.T, c C38Case) *Verdict {
	var table verifhooks.InternTable
	hist := &internHist{}
	st := sim.S()
	st.Sample(c, 3)
	racesBefore := sim.RaceErrors()
	type got struct {
		s  string
		id int32
	}
	results := make([][]got, len(c.Workers)) // what each worker observed from Intern
	var bad *Verdict
	var workers []*sim.RWorker
	for wi, ops := range c.Workers {
		wi, ops := wi, ops
		workers = append(workers, &sim.RWorker{Name: fmt.Sprintf("w%d", wi), Fn: func() {
			var mine []got
			for _, op := range ops {
				sim.RYield("r.op")
				switch op.Kind {
				case "intern", "intern-bytes":
					call := hist.tick()
					var id int32
					if op.Kind == "intern" {
						id = int32(table.Intern(op.S))
					} else {
						buf := []byte(op.S)
						id = int32(table.InternBytes(buf))
						// the caller may reuse its buffer as soon as InternBytes returns
						for i := range buf {
							buf[i] = '#'
						}
					}
					ret := hist.tick()
					hist.add(porcupine.Operation{ClientId: wi, Input: internIn{Kind: "intern", S: op.S}, Call: call, Output: internOut{ID: id}, Return: ret})
					mine = append(mine, got{op.S, id})
				case "query":
					call := hist.tick()
					id, ok := table.Query(op.S)
					ret := hist.tick()
					hist.add(porcupine.Operation{ClientId: wi, Input: internIn{Kind: "query", S: op.S}, Call: call, Output: internOut{ID: int32(id), OK: ok}, Return: ret})
				case "value":
					if len(mine) == 0 {
						continue
					}
					g := mine[op.Ref%len(mine)]
					call := hist.tick()
					s := table.Value(verifhooks.InternID(g.id))
					ret := hist.tick()
					if g.id > 0 {
						hist.add(porcupine.Operation{ClientId: wi, Input: internIn{Kind: "value", ID: g.id}, Call: call, Output: internOut{S: s}, Return: ret})
					} else if s != g.s {
						setVerdict(&bad, viol("C38/inline-roundtrip", "Intern(%q) gave inline id %d but Value gives %q", g.s, g.id, s))
					}
				}
			}
			storeResults(results, wi, mine)
		}})
	}
	out := sim.RunHBFree(sim.RConfig{Tape: c.Tape, Disabled: setOf(c.Disabled), SpinPoints: internSpinPoints, SpinFollowers: map[string]bool{"n.slow.los": true}, MaxSteps: 6000, SpinBurst: c.SpinBurst}, workers)
	stored := 0
	for _, ops := range c.Workers {
		for _, op := range ops {
			if strings.HasPrefix(op.Kind, "intern") && !inlineable(op.S) {
				stored++
			}
		}
	}
	st.Case(fmt.Sprintf("%v|%d", c.Workers, out.TraceHash), stored >= 2)
	v := func(class, format string, args ...any) *Verdict {
		x := viol(class, format, args...)
		x.Trace, x.TraceHash = out.Trace, out.TraceHash
		return x
	}
	if out.Livelock {
		return v("C38/livelock", "only spinning goroutines are left: %v", out.Stuck)
	}
	if out.Budget {
		return v("C38/livelock", "step budget exhausted")
	}
	if len(out.Panics) > 0 {
		return v("C38/panic", "%s", out.DescribePanics())
	}
	if n := sim.RaceErrors() - racesBefore; n > 0 {
		return v("C38/data-race", "the race detector reported %d data race(s)", n)
	}
	if bad != nil {
		bad.Trace, bad.TraceHash = out.Trace, out.TraceHash
		return bad
	}
	// every goroutine got the same id for the same string; distinct strings, distinct ids
	byString := map[string]int32{}
	byID := map[int32]string{}
	for wi, rs := range results {
		for _, g := range rs {
			if id, ok := byString[g.s]; ok && id != g.id {
				return v("C38/ids-disagree", "Intern(%q) returned %d to one caller and %d to worker %d", g.s, id, g.id, wi)
			}
			byString[g.s] = g.id
			if s, ok := byID[g.id]; ok && s != g.s {
				return v("C38/id-collision", "id %d was returned for both %q and %q", g.id, s, g.s)
			}
			byID[g.id] = g.s
			if (g.id <= 0) != inlineable(g.s) {
				return v("C38/inline-rule", "Intern(%q) returned id %d, but the string is inlineable=%v", g.s, g.id, inlineable(g.s))
			}
		}
	}
	for s, id := range byString {
		if got := table.Value(verifhooks.InternID(id)); got != s {
			return v("C38/value-roundtrip", "Value(Intern(%q)) = %q", s, got)
		}
		if qid, ok := table.Query(s); !ok || int32(qid) != id {
			return v("C38/query-after-intern", "after everything finished, Query(%q) = (%d,%v), Intern gave %d", s, qid, ok, id)
		}
	}
	switch res := porcupine.CheckOperationsTimeout(internModel, hist.ops, 20*time.Second); res {
	case porcupine.Illegal:
		var lines []string
		for _, op := range hist.ops {
			lines = append(lines, fmt.Sprintf("w%d [%d,%d] %s", op.ClientId, op.Call, op.Return, internModel.DescribeOperation(op.Input, op.Output)))
		}
		return v("C38/not-linearizable", "the recorded history has no sequential explanation against map[string]ID:\n%s", strings.Join(lines, "\n"))
	case porcupine.Unknown:
		st.Probe("porcupine-timeout")
	default:
		st.Probe("porcupine-ok")
	}
	return nil
}

//go:norace
func setVerdict(dst **Verdict, v *Verdict) {
	if *dst == nil {
		*dst = v
	}
}

//go:norace
func storeResults[T any](results [][]T, i int, mine []T) { results[i] = mine }

func TestC38(t *testing.T) {
	sim.InstallR()
	runProp(t, "C38", genC38, execC38)
}
