//go:build verif

package props

import (
	"context"
	"fmt"
	"sync"
	"testing"

	"google.golang.org/protobuf/proto"
	"google.golang.org/protobuf/types/descriptorpb"
	"pgregory.net/rapid"

	"github.com/bufbuild/protocompile"

	"verifharness/sim"
)

// C09 (race-detector part): resolver-supplied objects can be shared by
// concurrent compilations. Two or three real, unscheduled Compile calls share
// the same supplied ASTs, parse results and descriptor protos (the protos carry
// source info) under the race detector. This part is NOT simulated: nothing
// controls the interleaving. It relies on the race detector's happens-before
// analysis, which reports an unsynchronised write to a shared input whichever
// way the goroutines happen to interleave.
type C09RCase struct {
	WL      CompileWL   `json:"workload"`
	Clients []C09Client `json:"clients"`
	Modes   []int       `json:"srcinfo_modes"`
}

func genC09R(t *rapid.T) C09RCase {
	wl := genCompileWL(t, 5, false)
	c := C09RCase{WL: wl}
	req := genRequest(t, wl.names())
	n := rapid.IntRange(2, 3).Draw(t, "nclients")
	for i := 0; i < n; i++ {
		cl := C09Client{Forms: map[string]string{}, Run: CompileRun{Par: []int{1, 2, 4}[rapid.IntRange(0, 2).Draw(t, "par")], Request: genPermutation(t, req, false)}}
		for _, f := range wl.names() {
			cl.Forms[f] = formNames[rapid.IntRange(0, 3).Draw(t, "form")]
		}
		c.Clients = append(c.Clients, cl)
		c.Modes = append(c.Modes, srcInfoModes[rapid.IntRange(0, len(srcInfoModes)-1).Draw(t, "srcinfo")])
	}
	return c
}

func execC09R(t *testing.T, c C09RCase) *Verdict {
	// reference with source info, to attach source info to the supplied protos
	ref := refCompile(&c.WL, c.WL.names(), 1, nil)
	if ref.refTrouble != "" {
		panic(sim.HarnessFault{Msg: fmt.Sprintf("C09R reference compile: %s", ref.refTrouble)})
	}
	if ref.err != nil {
		return invalidReference("C09R", &c.WL, c.WL.names(), ref)
	}
	supplied, err := buildSupplied(&c.WL)
	if err != nil {
		panic(sim.HarnessFault{Msg: err.Error()})
	}
	for name, p := range supplied.protos {
		var linked descriptorpb.FileDescriptorProto
		if err := proto.Unmarshal(ref.files[name], &linked); err == nil {
			p.SourceCodeInfo = linked.SourceCodeInfo
		}
	}
	before := supplied.snapshot()
	racesBefore := sim.RaceErrors()
	results := make([]compileResult, len(c.Clients))
	var wg sync.WaitGroup
	for i := range c.Clients {
		i := i
		wg.Add(1)
		go func() {
			defer wg.Done()
			cl := c.Clients[i]
			comp := &protocompile.Compiler{
				Resolver:       formResolver(&c.WL, supplied, cl.Forms),
				MaxParallelism: cl.Run.Par,
				SourceInfoMode: protocompile.SourceInfoMode(c.Modes[i]),
			}
			results[i] = doCompile(context.Background(), comp, cl.Run.Request)
		}()
	}
	wg.Wait()
	st := sim.S()
	st.Runs++
	st.Sample(c, 2)
	st.Case(fmt.Sprintf("%v|%v|%v", c.WL.Files, c.Clients, c.Modes), true)
	if n := sim.RaceErrors() - racesBefore; n > 0 {
		return viol("C09/data-race-on-shared-input", "the race detector reported %d race(s) while %d concurrent compilations shared the same resolver-supplied objects", n, len(c.Clients))
	}
	for i, r := range results {
		if r.panicked != nil || r.err != nil {
			return viol("C09/form-changes-outcome", "concurrent client %d failed: %v %v", i, r.err, r.panicked)
		}
	}
	after := supplied.snapshot()
	for k, v := range before {
		if after[k] != v {
			return viol("C09/input-mutated", "supplied object %s was modified by compilation", k)
		}
	}
	return nil
}

func TestC09R(t *testing.T) {
	sim.InstallR()
	runProp(t, "C09", genC09R, execC09R)
}
