//go:build verif

package props

import (
	"context"
	"errors"
	"fmt"
	"testing"

	"pgregory.net/rapid"

	"verifharness/sim"
)

// C33: the incremental executor memoises and invalidates exactly.
type C33Op struct {
	Kind  string `json:"kind"` // run | run-cancel | evict | evict-bump
	Nodes []int  `json:"nodes"`
	// CancelAt (run-cancel only): the scheduler cancels this Run's context this
	// many decisions after the operation started (0: before Run is called; a
	// large value may fall after its return, which cancels nothing).
	CancelAt int `json:"cancel_at,omitempty"`
}

type C33Case struct {
	Graph   GraphSpec `json:"graph"`
	Par     int       `json:"par"`
	Clients [][]C33Op `json:"clients"`
	Sched   Sched     `json:"sched"`
}

var errRunAbandoned = errors.New("the caller abandoned this run (cancellation cause)")

func genC33(t *rapid.T) C33Case {
	c := C33Case{Graph: genGraph(t, 7, true), Par: rapid.IntRange(1, 4).Draw(t, "par")}
	nclients := rapid.IntRange(1, 3).Draw(t, "nclients")
	// One case in three has Runs whose context is cancelled at some point: a
	// cancelled Run is still a Run of the history, and what it leaves behind
	// (a leader that gives up, stragglers) must not harm the other Runs.
	withCancel := rapid.IntRange(0, 2).Draw(t, "withCancel") == 0
	for i := 0; i < nclients; i++ {
		nops := rapid.IntRange(1, 4).Draw(t, "nops")
		var ops []C33Op
		for k := 0; k < nops; k++ {
			switch rapid.IntRange(0, 4).Draw(t, "opKind") {
			case 0:
				ops = append(ops, C33Op{Kind: "evict", Nodes: genRoots(t, c.Graph.N)})
			case 1:
				ops = append(ops, C33Op{Kind: "evict-bump", Nodes: genRoots(t, c.Graph.N)})
			default:
				op := C33Op{Kind: "run", Nodes: genRoots(t, c.Graph.N)}
				if withCancel && rapid.IntRange(0, 2).Draw(t, "cancelThis") == 0 {
					op.Kind = "run-cancel"
					op.CancelAt = rapid.IntRange(0, 60).Draw(t, "cancelAt")
				}
				ops = append(ops, op)
			}
		}
		c.Clients = append(c.Clients, ops)
	}
	c.Sched = Sched{Tape: genTape(t, 400), Disabled: genDisabled(t, incrOptional), PCT: genPCT(t, 200), Tail: genTail(t)}
	return c
}

func execC33(t *testing.T, c C33Case) *Verdict {
	w := newWorld("C33", c.Graph, c.Par)
	var clients []sim.Client
	units := 0
	for i, ops := range c.Clients {
		i, ops := i, ops
		units += len(ops)
		clients = append(clients, sim.Client{Name: fmt.Sprintf("c%d", i), Fn: func() {
			for k, op := range ops {
				sim.Yield("h.op", "")
				if w.viol != nil {
					return
				}
				switch op.Kind {
				case "run":
					rr := w.doRun(context.Background(), op.Nodes)
					checkC33Run(w, rr, false)
				case "run-cancel":
					// (every other cancelled Run is cancelled with a cause of its own, as
					// context.WithCancelCause or a deadline with a cause would)
					ctx, cancelCause := context.WithCancelCause(context.Background())
					cancel := func() {
						if op.CancelAt%2 == 1 {
							cancelCause(errRunAbandoned)
						} else {
							cancelCause(nil)
						}
					}
					finished, inFlight := false, false
					if op.CancelAt == 0 {
						inFlight = true
						sim.S().Fault("cancel-run-before-start")
						cancel()
					} else {
						sim.After(op.CancelAt, fmt.Sprintf("cancel c%d.%d", i, k), func() {
							if !finished {
								inFlight = true
								sim.S().Fault("cancel-run-in-flight")
								cancel()
							}
						})
					}
					rr := w.doRun(ctx, op.Nodes)
					finished = true
					checkC33Run(w, rr, inFlight)
					cancel()
				case "evict":
					w.doEvict(op.Nodes, false)
				case "evict-bump":
					w.doEvict(op.Nodes, true)
				}
			}
		}})
	}
	out := sim.RunBubble(t, incrBubbleCfg(&c.Sched, w, incrBudget(&c.Graph, units)), clients, nil)
	st := sim.S()
	st.Sample(c, 3)
	nRuns, nEv := 0, 0
	for _, ops := range c.Clients {
		for _, op := range ops {
			if op.Kind == "run" {
				nRuns++
			} else {
				nEv++
			}
		}
	}
	st.Case(fmt.Sprintf("%v|%d|%v|%d", c.Graph, c.Par, c.Clients, out.TraceHash), nRuns > 0 && nEv > 0)
	if len(c.Clients) > 1 {
		st.Probe("concurrent-clients")
	}
	if v := hangVerdict("C33", out); v != nil {
		return v
	}
	if w.viol != nil {
		return w.viol.with(out)
	}
	// Changed flags: a result is marked changed exactly when it was computed
	// during the observing run.
	return nil
}

// checkC33Run is evaluated right after a Run returned, while the inputs are
// still the snapshot the run saw (evictions are excluded while a run is
// active).
//
// cancelled: this Run's own context was cancelled before it returned. Such a
// Run may fail with the cancellation error; if it returns results all the same
// their values are judged like any others. Whatever a cancelled Run did, every
// other Run must still get the right values.
func checkC33Run(w *gworld, rr runResult, cancelled bool) {
	switch {
	case rr.panicked != nil:
		w.fail(viol("C33/run-panicked", "Run(%v) panicked: %v", rr.roots, rr.panicked))
		return
	case rr.err != nil && cancelled:
		if !errors.Is(rr.err, context.Canceled) && !errors.Is(rr.err, errRunAbandoned) {
			w.fail(viol("C33/run-failed", "cancelled Run(%v) failed with %v, which is not the cancellation error", rr.roots, rr.err))
		}
		sim.S().Probe("run:cancelled")
		return
	case rr.err != nil:
		w.fail(viol("C33/run-failed", "Run(%v) failed without any fault: %v", rr.roots, rr.err))
		return
	case len(rr.results) != len(rr.roots):
		w.fail(viol("C33/run-failed", "Run(%v) returned %d results", rr.roots, len(rr.results)))
		return
	}
	cache := map[int]int64{}
	for i, r := range rr.roots {
		res := rr.results[i]
		if res.Fatal != nil {
			if (errors.Is(res.Fatal, context.Canceled) || errors.Is(res.Fatal, errRunAbandoned)) && !cancelled {
				w.fail(viol("C33/cancellation-error-served-to-live-run", "Run(%v) (run %d), whose context is live: query %d failed with %v -- an error that a cancelled Run left in the memo", rr.roots, rr.tag, r, res.Fatal))
				return
			}
			w.fail(viol("C33/unexpected-fatal", "Run(%v): query %d failed: %v", rr.roots, r, res.Fatal))
			return
		}
		if want := w.modelValue(r, cache); res.Value != want {
			w.fail(viol("C33/stale-or-wrong-value", "Run(%v) (run %d): query %d returned %d but a fresh computation on the current inputs %v gives %d", rr.roots, rr.tag, r, res.Value, w.input, want))
			return
		}
	}
	if cancelled {
		// (this Run got results although its context was cancelled on the way: what
		// it computed after the cancellation was deliberately not memoised)
		return
	}
	for k := range w.downClosure(rr.roots) {
		if !w.memo[k] {
			w.fail(viol("C33/evicted-key-not-recomputed", "after Run(%v) (run %d) query %d is needed but was not executed since it was last evicted (a stale memo was used)", rr.roots, rr.tag, k))
			return
		}
	}
	for _, o := range w.obs {
		if o.run != rr.tag {
			continue
		}
		want := w.executedBy[o.dep] == rr.tag
		if o.changed != want {
			who := "Run"
			if o.caller >= 0 {
				who = fmt.Sprintf("query %d", o.caller)
			}
			w.fail(viol("C33/changed-flag-wrong", "run %d: %s saw Changed=%v for query %d, but that query was computed by run %d", rr.tag, who, o.changed, o.dep, w.executedBy[o.dep]))
			return
		}
	}
}

func TestC33(t *testing.T) { runProp(t, "C33", genC33, execC33) }
