//go:build verif

package props

import (
	"context"
	"fmt"
	"regexp"
	"strings"
	"testing"

	"pgregory.net/rapid"

	"github.com/bufbuild/protocompile"
	"github.com/bufbuild/protocompile/reporter"

	"verifharness/sim"
)

// C06: compilation always terminates and reports exactly the import cycles.
type C06Case struct {
	WL      CompileWL  `json:"workload"`
	Run     CompileRun `json:"run"`
	Collect bool       `json:"collecting_reporter"` // reporter that records and never aborts (else default reporter)
	Sched   Sched      `json:"sched"`
}

func genC06(t *rapid.T) C06Case {
	wl := genImportGraphWL(t, 6)
	c := C06Case{WL: wl}
	c.Run = CompileRun{
		Par:     rapid.IntRange(1, 4).Draw(t, "par"),
		Request: genPermutation(t, genRequest(t, wl.names()), false),
		Symbols: rapid.IntRange(0, 3).Draw(t, "symbols") == 0,
	}
	c.Collect = rapid.IntRange(0, 1).Draw(t, "collect") == 0
	c.Sched = genSched(t, &wl, compileOptional, 400)
	return c
}

// hasCycle reports whether the subgraph induced by nodes contains a cycle.
func hasCycle(g map[string][]string, nodes map[string]bool) bool {
	const (
		white = 0
		grey  = 1
		black = 2
	)
	color := map[string]int{}
	var visit func(n string) bool
	visit = func(n string) bool {
		color[n] = grey
		for _, d := range g[n] {
			if !nodes[d] {
				continue
			}
			if color[d] == grey {
				return true
			}
			if color[d] == white && visit(d) {
				return true
			}
		}
		color[n] = black
		return false
	}
	for n := range nodes {
		if color[n] == white && visit(n) {
			return true
		}
	}
	return false
}

var quoted = regexp.MustCompile(`"([^"]*)"`)

// checkCyclePath validates the text of a cycle error against the graph: every
// consecutive pair must be an import edge and the last file must repeat an
// earlier one.
func checkCyclePath(g map[string][]string, msg string) string {
	i := strings.Index(msg, "cycle found in imports: ")
	if i < 0 {
		return "not a cycle message"
	}
	var path []string
	for _, m := range quoted.FindAllStringSubmatch(msg[i:], -1) {
		path = append(path, m[1])
	}
	if len(path) < 2 {
		return "cycle path has fewer than two elements"
	}
	for k := 0; k+1 < len(path); k++ {
		ok := false
		for _, d := range g[path[k]] {
			if d == path[k+1] {
				ok = true
			}
		}
		if !ok {
			return fmt.Sprintf("%q does not import %q", path[k], path[k+1])
		}
	}
	last := path[len(path)-1]
	for _, p := range path[:len(path)-1] {
		if p == last {
			return ""
		}
	}
	return fmt.Sprintf("last element %q does not close a cycle", last)
}

func execC06(t *testing.T, c C06Case) *Verdict {
	g := c.WL.graph()
	closure, missing := closureOf(g, c.Run.Request)
	cyclic := hasCycle(g, closure)

	var reported []string // every error text the reporter saw, including after return
	var res compileResult
	client := sim.Client{Name: "c0", Fn: func() {
		comp := &protocompile.Compiler{Resolver: mapResolver(c.WL.sources()), MaxParallelism: c.Run.Par}
		if c.Collect {
			comp.Reporter = reporter.NewReporter(func(e reporter.ErrorWithPos) error {
				reported = append(reported, e.Error())
				return nil
			}, nil)
		}
		res = doCompile(context.Background(), comp, c.Run.Request)
	}}
	out := sim.RunBubble(t, bubbleCfg(&c.Sched, stepBudget(&c.WL)), []sim.Client{client}, nil)
	st := sim.S()
	st.Sample(c, 3)
	st.Case(fmt.Sprintf("%v|%v|%v|%d", c.WL.Files, c.Run, c.Collect, out.TraceHash), cyclic)
	switch {
	case cyclic && missing:
		st.Probe("graph:cycle+missing")
	case cyclic:
		st.Probe("graph:cycle-only")
	case missing:
		st.Probe("graph:missing-only")
	default:
		st.Probe("graph:clean")
	}
	if v := hangVerdict("C06", out); v != nil {
		return v
	}
	if !res.returned {
		return viol("C06/deadlock", "Compile did not return").with(out)
	}
	if res.panicked != nil {
		return viol("C06/compile-panicked-on-caller", "Compile panicked: %v", res.panicked).with(out)
	}
	if res.err != nil && !c.Collect {
		reported = append(reported, res.err.Error())
	}
	nCycleErr := 0
	for _, msg := range reported {
		if !strings.Contains(msg, "cycle found in imports") {
			continue
		}
		nCycleErr++
		if !cyclic {
			return viol("C06/cycle-reported-on-acyclic-graph", "closure of %v is acyclic but got: %s", c.Run.Request, msg).with(out)
		}
		if why := checkCyclePath(g, msg); why != "" {
			return viol("C06/bogus-cycle-path", "%s: %s", why, msg).with(out)
		}
	}
	if nCycleErr > 0 {
		st.Probe("cycle-error-seen")
	}
	switch {
	case !cyclic && !missing:
		if res.err != nil {
			return viol("C06/acyclic-graph-fails", "clean acyclic closure of %v failed: %v", c.Run.Request, res.err).with(out)
		}
		for i, n := range c.Run.Request {
			if res.paths[i] != n {
				return viol("C06/result-order", "result %d is %q, want %q", i, res.paths[i], n).with(out)
			}
		}
	case cyclic:
		if res.err == nil {
			return viol("C06/cycle-not-reported", "closure of %v contains an import cycle but Compile succeeded", c.Run.Request).with(out)
		}
		if !missing && nCycleErr == 0 {
			return viol("C06/cycle-not-reported", "cycles are the only defect in the closure of %v but no cycle error was reported; err=%v reported=%v", c.Run.Request, res.err, reported).with(out)
		}
	default: // missing import only
		if res.err == nil {
			return viol("C06/missing-import-ignored", "closure of %v has a missing import but Compile succeeded", c.Run.Request).with(out)
		}
	}
	return nil
}

func TestC06(t *testing.T) { runProp(t, "C06", genC06, execC06) }
