//go:build verif

package props

import (
	"context"
	"fmt"
	"testing"

	"pgregory.net/rapid"

	"github.com/bufbuild/protocompile"
	"github.com/bufbuild/protocompile/linker"

	"verifharness/sim"
)

// C05: output is independent of parallelism, request order and scheduling.
type C05Case struct {
	WL      CompileWL    `json:"workload"`
	SrcInfo int          `json:"srcinfo"`
	Runs    []CompileRun `json:"runs"`
	Sched   Sched        `json:"sched"`
}

var srcInfoModes = []int{0, 1, 2, 5, 6}
var parChoices = []int{1, 2, 3, 4, 16}

func genRequest(t *rapid.T, names []string) []string {
	// non-empty subset
	var req []string
	for _, n := range names {
		if rapid.IntRange(0, 2).Draw(t, "req") > 0 {
			req = append(req, n)
		}
	}
	if len(req) == 0 {
		req = append(req, names[rapid.IntRange(0, len(names)-1).Draw(t, "reqOne")])
	}
	return req
}

func genPermutation(t *rapid.T, req []string, allowDup bool) []string {
	out := append([]string(nil), req...)
	for i := len(out) - 1; i > 0; i-- {
		j := rapid.IntRange(0, i).Draw(t, "perm")
		out[i], out[j] = out[j], out[i]
	}
	if allowDup && rapid.IntRange(0, 4).Draw(t, "dup") == 0 {
		out = append(out, out[rapid.IntRange(0, len(out)-1).Draw(t, "dupIdx")])
	}
	return out
}

func genSched(t *rapid.T, wl *CompileWL, optional []string, maxTape int) Sched {
	sc := Sched{Tape: genTape(t, maxTape), Disabled: genDisabled(t, optional), PCT: genPCT(t, 150), Tail: genTail(t)}
	if rapid.IntRange(0, 5).Draw(t, "victim") == 0 {
		sc.Victim = "c0/" + wl.Files[rapid.IntRange(0, len(wl.Files)-1).Draw(t, "victimFile")].Name
	}
	return sc
}

func genC05(t *rapid.T) C05Case {
	wl := genCompileWL(t, 7, rapid.IntRange(0, 2).Draw(t, "defects") == 0)
	c := C05Case{WL: wl, SrcInfo: srcInfoModes[rapid.IntRange(0, len(srcInfoModes)-1).Draw(t, "srcinfo")]}
	req := genRequest(t, wl.names())
	nruns := rapid.IntRange(1, 2).Draw(t, "nruns")
	for i := 0; i < nruns; i++ {
		c.Runs = append(c.Runs, CompileRun{
			Par:        parChoices[rapid.IntRange(0, len(parChoices)-1).Draw(t, "par")],
			Request:    genPermutation(t, req, true),
			Symbols:    rapid.IntRange(0, 1).Draw(t, "symbols") == 0,
			RetainASTs: rapid.IntRange(0, 3).Draw(t, "retainASTs") == 0,
		})
	}
	c.Sched = genSched(t, &wl, compileOptional, 300)
	return c
}

func execC05(t *testing.T, c C05Case) *Verdict {
	ref := refCompile(&c.WL, c.Runs[0].Request, c.SrcInfo, nil)
	if v := refTroubleVerdict("C05", ref); v != nil {
		return v
	}
	ref2 := refCompile(&c.WL, c.Runs[0].Request, c.SrcInfo, nil)
	if v := diffResults("C05", ref, ref2, nil); v != nil {
		v.Class = "C05/unsimulated-repeat-differs"
		return v
	}
	results := make([]compileResult, len(c.Runs))
	client := sim.Client{Name: "c0", Fn: func() {
		for i, r := range c.Runs {
			comp := &protocompile.Compiler{
				Resolver:       mapResolver(c.WL.sources()),
				MaxParallelism: r.Par,
				SourceInfoMode: protocompile.SourceInfoMode(c.SrcInfo),
				RetainASTs:     r.RetainASTs,
			}
			if r.Symbols {
				comp.Symbols = &linker.Symbols{}
			}
			results[i] = doCompile(context.Background(), comp, r.Request)
			sim.Yield("h.between", "")
		}
	}}
	out := sim.RunBubble(t, bubbleCfg(&c.Sched, stepBudget(&c.WL)*len(c.Runs)), []sim.Client{client}, nil)
	st := sim.S()
	st.Sample(c, 3)
	st.Case(fmt.Sprintf("%v|%v|%d", c.WL.Files, c.Runs, out.TraceHash), ref.err == nil && len(c.WL.Files) > 1)
	if ref.err == nil {
		st.Probe("reference-succeeds")
	} else {
		st.Probe("reference-fails")
	}
	if v := hangVerdict("C05", out); v != nil {
		return v
	}
	for i, r := range c.Runs {
		if !results[i].returned {
			return viol("C05/deadlock", "compile %d did not return", i).with(out)
		}
		if v := diffResults("C05", ref, results[i], r.Request); v != nil {
			v.Detail = fmt.Sprintf("run %d (par=%d request=%v symbols=%v): %s", i, r.Par, r.Request, r.Symbols, v.Detail)
			return v.with(out)
		}
	}
	return nil
}

func TestC05(t *testing.T) { runProp(t, "C05", genC05, execC05) }
