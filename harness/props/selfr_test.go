//go:build verif

package props

import (
	"fmt"
	"sync"
	"testing"

	"verifharness/sim"
)

// TestSelfR checks Engine R's central claim on a toy: a serialised pair of
// unsynchronised increments is reported by the race detector, the
// mutex-protected pair is not, and the schedule is reproducible.
func TestSelfR(t *testing.T) {
	if !sim.RaceEnabled {
		t.Skip("needs -race")
	}
	run := func(locked bool) (int, uint64) {
		var shared int
		var mu sync.Mutex
		before := sim.RaceErrors()
		mk := func(name string) *sim.RWorker {
			return &sim.RWorker{Name: name, Fn: func() {
				for i := 0; i < 3; i++ {
					sim.RYield("t.op")
					if locked {
						mu.Lock()
					}
					shared++
					if locked {
						mu.Unlock()
					}
				}
			}}
		}
		out := sim.RunHBFree(sim.RConfig{Tape: []uint16{0, 1, 1, 0, 1, 0, 0, 1}}, []*sim.RWorker{mk("a"), mk("b")})
		if shared != 6 {
			t.Fatalf("serialised increments lost: %d", shared)
		}
		return sim.RaceErrors() - before, out.TraceHash
	}
	n1, h1 := run(true)
	n2, h2 := run(false)
	_, h3 := run(true)
	n4, _ := run(false)
	t.Logf("race counts: locked=%d unlocked=%d unlocked-again=%d", n1, n2, n4)
	if n1 != 0 {
		t.Fatalf("mutex-protected pair reported %d races", n1)
	}
	if n2 == 0 {
		t.Fatalf("unsynchronised pair not reported")
	}
	if h1 != h2 || h1 != h3 {
		t.Fatalf("trace hashes differ: %d %d %d", h1, h2, h3)
	}
	fmt.Println("SELFR-OK")
}
