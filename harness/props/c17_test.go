//go:build verif

package props

import (
	"context"
	"fmt"
	"sort"
	"strings"
	"sync"
	"testing"

	"google.golang.org/protobuf/reflect/protodesc"
	"google.golang.org/protobuf/reflect/protoreflect"
	"pgregory.net/rapid"

	"github.com/bufbuild/protocompile"
	"github.com/bufbuild/protocompile/linker"
	"github.com/bufbuild/protocompile/protoutil"
	"github.com/bufbuild/protocompile/reporter"
	"github.com/bufbuild/protocompile/walk"

	"verifharness/sim"
)

// C17: a failed symbol import leaves the table unchanged. Histories of
// Import / Lookup / LookupExtension against a flat map model.

var symPoolSrc = map[string]string{
	"base.proto": `syntax = "proto2"; package a; message Base { extensions 100 to 200; } message Common { optional int32 c = 1; }`,
	"f1.proto":   `syntax = "proto2"; package a; import "base.proto"; message X { optional int32 x = 1; } extend Base { optional int32 e1 = 100; }`,
	"f2.proto":   `syntax = "proto2"; package a; import "base.proto"; message X { optional string other = 1; } message OnlyInF2 {}`,
	"f3.proto":   `syntax = "proto2"; package a; import "base.proto"; message Y { optional int32 y = 1; } extend Base { optional int32 e3 = 100; }`,
	"f4.proto":   `syntax = "proto3"; package a.b; message Z { int32 z = 1; } enum E { V = 0; }`,
	"f5.proto":   `syntax = "proto3"; package a; message b { int32 n = 1; } message AlsoInF5 {}`,
	"f6.proto":   `syntax = "proto3"; message a { int32 n = 1; } message TopOnly {}`,
	"f7.proto":   `syntax = "proto2"; package c; import "base.proto"; message W { optional int32 w = 1; } extend a.Base { optional int32 e7 = 101; optional int32 e7b = 100; }`,
	"f8.proto":   `syntax = "proto3"; package c; message W { int32 w = 1; } enum Q { W2 = 0; } service S { rpc M(W) returns (W); }`,
	"f9.proto":   `syntax = "proto3"; package x.y; message M { int32 m = 1; }`,
	"f10.proto":  `syntax = "proto3"; package x; message y { int32 m = 1; }`,
	"f11.proto":  `syntax = "proto3"; package x.y; message M { int32 other = 1; } message N {}`,
	"f12.proto":  `syntax = "proto2"; package n.m; import "base.proto"; message K { optional int32 k = 1; } extend a.Base { optional int32 e12 = 100; }`,
	"f13.proto":  `syntax = "proto3"; message n { int32 k = 1; }`,
	"f14.proto":  `syntax = "proto2"; package a; import "base.proto"; message V { optional int32 v = 1; } extend Base { optional int32 e14 = 150; optional int32 e14b = 101; }`,
	// enum values live in the scope enclosing the enum: a.X, a.Y, c.W collide with messages, a.EV with another enum's value
	"f15.proto": `syntax = "proto3"; package a; enum Kind { X = 0; EV = 1; }`,
	"f16.proto": `syntax = "proto3"; package a; enum Other { Y = 0; }  message Holder { enum In { IN0 = 0; } }`,
	"f17.proto": `syntax = "proto3"; package a; enum Third { EV = 0; }`,
	"f18.proto": `syntax = "proto3"; package c; enum Cs { W = 0; }`,
}

type symFile struct {
	name    string // e.g. "f1.proto/res" or "f1.proto/pd"
	fd      protoreflect.FileDescriptor
	pkg     string
	symbols []string    // every full name defined by the file
	exts    [][2]string // (extendee, tag)
	deps    []string    // pool names of dependencies (same form rules: base is shared)
}

var (
	symPoolOnce  sync.Once
	symPool      map[string]*symFile
	symPoolNames []string
	symUniverse  []string
	extUniverse  [][2]string
)

func fileSymbols(fd protoreflect.FileDescriptor) ([]string, [][2]string) {
	var syms []string
	var exts [][2]string
	_ = walk.Descriptors(fd, func(d protoreflect.Descriptor) error {
		syms = append(syms, string(d.FullName()))
		if f, ok := d.(protoreflect.FieldDescriptor); ok && f.IsExtension() {
			exts = append(exts, [2]string{string(f.ContainingMessage().FullName()), fmt.Sprint(f.Number())})
		}
		return nil
	})
	return syms, exts
}

func buildSymPool() {
	symPool = map[string]*symFile{}
	compileOne := func(name string, base linker.File) linker.File {
		c := &protocompile.Compiler{Resolver: protocompile.ResolverFunc(func(p string) (protocompile.SearchResult, error) {
			if p == "base.proto" && base != nil {
				return protocompile.SearchResult{Desc: base}, nil
			}
			if src, ok := symPoolSrc[p]; ok {
				return protocompile.SearchResult{Source: strings.NewReader(src)}, nil
			}
			return protocompile.SearchResult{}, errNotFound
		}), SourceInfoMode: protocompile.SourceInfoStandard}
		fs, err := c.Compile(context.Background(), name)
		if err != nil {
			panic(sim.HarnessFault{Msg: "C17 pool does not compile: " + err.Error()})
		}
		return fs[0]
	}
	base := compileOne("base.proto", nil)
	add := func(name string, fd protoreflect.FileDescriptor, deps []string) {
		syms, exts := fileSymbols(fd)
		symPool[name] = &symFile{name: name, fd: fd, pkg: string(fd.Package()), symbols: syms, exts: exts, deps: deps}
	}
	add("base.proto/res", base, nil)
	var names []string
	for n := range symPoolSrc {
		names = append(names, n)
	}
	sort.Strings(names)
	for _, n := range names {
		if n == "base.proto" {
			continue
		}
		res := compileOne(n, base)
		var deps []string
		if res.Imports().Len() > 0 {
			deps = []string{"base.proto/res"}
		}
		add(n+"/res", res, deps)
		// the same file as a plain protodesc descriptor (no source attached)
		fdp := protoutil.ProtoFromFileDescriptor(res)
		pd, err := protodesc.NewFile(fdp, depResolver{base})
		if err != nil {
			panic(sim.HarnessFault{Msg: "C17 protodesc.NewFile: " + err.Error()})
		}
		add(n+"/pd", pd, deps)
	}
	seenSym := map[string]bool{}
	seenExt := map[[2]string]bool{}
	for n, f := range symPool {
		symPoolNames = append(symPoolNames, n)
		for _, s := range f.symbols {
			seenSym[s] = true
		}
		for _, e := range f.exts {
			seenExt[e] = true
		}
		// package prefixes are part of the universe: Lookup must not report them
		// after a failed import either
		p := f.pkg
		for p != "" {
			seenSym[p] = true
			if i := strings.LastIndexByte(p, '.'); i >= 0 {
				p = p[:i]
			} else {
				p = ""
			}
		}
	}
	sort.Strings(symPoolNames)
	for s := range seenSym {
		symUniverse = append(symUniverse, s)
	}
	sort.Strings(symUniverse)
	for e := range seenExt {
		extUniverse = append(extUniverse, e)
	}
	sort.Slice(extUniverse, func(i, j int) bool { return extUniverse[i][0]+extUniverse[i][1] < extUniverse[j][0]+extUniverse[j][1] })
}

type depResolver struct{ base protoreflect.FileDescriptor }

func (r depResolver) FindFileByPath(p string) (protoreflect.FileDescriptor, error) {
	if p == "base.proto" {
		return r.base, nil
	}
	return nil, errNotFound
}

func (r depResolver) FindDescriptorByName(n protoreflect.FullName) (protoreflect.Descriptor, error) {
	if d := r.base.Messages().ByName(n.Name()); d != nil && d.FullName() == n {
		return d, nil
	}
	return nil, errNotFound
}

// symModel is the reference model: a flat map of names and extension numbers
// of the files whose import succeeded.
type symModel struct {
	pool      *symPoolT
	committed map[string]bool
	names     map[string]string // name -> "package" | "symbol"
	exts      map[[2]string]bool
	// which file (path) the table must name as the place of a symbol / an
	// extension number: the file whose import registered it
	nameOwner map[string]string
	extOwner  map[[2]string]string
}

func newSymModel(pool *symPoolT) *symModel {
	return &symModel{pool: pool, committed: map[string]bool{}, names: map[string]string{}, exts: map[[2]string]bool{},
		nameOwner: map[string]string{}, extOwner: map[[2]string]string{}}
}

func (m *symModel) clone() *symModel {
	c := newSymModel(m.pool)
	for k, v := range m.committed {
		c.committed[k] = v
	}
	for k, v := range m.names {
		c.names[k] = v
	}
	for k, v := range m.exts {
		c.exts[k] = v
	}
	for k, v := range m.nameOwner {
		c.nameOwner[k] = v
	}
	for k, v := range m.extOwner {
		c.extOwner[k] = v
	}
	return c
}

func pkgPrefixes(pkg string) []string {
	var out []string
	for i := 0; i < len(pkg); i++ {
		if pkg[i] == '.' {
			out = append(out, pkg[:i])
		}
	}
	if pkg != "" {
		out = append(out, pkg)
	}
	return out
}

// tryImport returns whether importing f succeeds in the model, applying it if so.
// Dependencies are imported first and stay imported even if f then fails.
func (m *symModel) tryImport(name string) bool {
	f := m.pool.files[name]
	if m.committed[name] {
		return true
	}
	for _, d := range f.deps {
		if !m.tryImport(d) {
			return false
		}
	}
	// (after the dependencies: one of them may define a symbol that is in the
	// way of this file's package)
	for _, p := range pkgPrefixes(f.pkg) {
		if m.names[p] == "symbol" {
			return false
		}
	}
	own := map[string]bool{}
	for _, s := range f.symbols {
		if _, exists := m.names[s]; exists || own[s] {
			return false
		}
		own[s] = true
	}
	for _, p := range pkgPrefixes(f.pkg) {
		if own[p] {
			return false
		}
	}
	ownExt := map[[2]string]bool{}
	for _, e := range f.exts {
		if m.exts[e] || ownExt[e] {
			return false
		}
		ownExt[e] = true
	}
	for _, p := range pkgPrefixes(f.pkg) {
		m.names[p] = "package"
	}
	for _, s := range f.symbols {
		m.names[s] = "symbol"
		m.nameOwner[s] = f.fd.Path()
	}
	for _, e := range f.exts {
		m.exts[e] = true
		m.extOwner[e] = f.fd.Path()
	}
	m.committed[name] = true
	return true
}

type C17Op struct {
	Kind string `json:"kind"` // import | lookup | lookup-ext
	File string `json:"file,omitempty"`
	Name string `json:"name,omitempty"`
	Tag  string `json:"tag,omitempty"`
	// Accept: the import's handler uses a reporter that accepts (returns nil
	// for) every error, so collisions are all reported and the failure is
	// visible through Handler.Error() rather than through an early abort.
	Accept bool `json:"accept,omitempty"`
}

type C17Case struct {
	Gen []GenSymFile `json:"generated_files,omitempty"`
	Ops []C17Op      `json:"ops"`
}

func genC17(t *rapid.T) C17Case {
	symPoolOnce.Do(buildSymPool)
	var c C17Case
	// Two cases in three add generated files to the fixed pool; imports then
	// prefer the generated ones.
	if rapid.IntRange(0, 2).Draw(t, "withGen") > 0 {
		c.Gen = genSymFiles(t)
	}
	pool := poolFor(c.Gen)
	var genNames []string
	for _, n := range pool.names {
		if strings.HasPrefix(n, "g") {
			genNames = append(genNames, n)
		}
	}
	n := rapid.IntRange(2, 12).Draw(t, "nops")
	for i := 0; i < n; i++ {
		switch rapid.IntRange(0, 5).Draw(t, "opKind") {
		case 0:
			c.Ops = append(c.Ops, C17Op{Kind: "lookup", Name: pool.universe[rapid.IntRange(0, len(pool.universe)-1).Draw(t, "name")]})
		case 1:
			e := pool.exts[rapid.IntRange(0, len(pool.exts)-1).Draw(t, "ext")]
			c.Ops = append(c.Ops, C17Op{Kind: "lookup-ext", Name: e[0], Tag: e[1]})
		default:
			from := pool.names
			if len(genNames) > 0 && rapid.IntRange(0, 2).Draw(t, "fromGen") > 0 {
				from = genNames
			}
			c.Ops = append(c.Ops, C17Op{Kind: "import", File: from[rapid.IntRange(0, len(from)-1).Draw(t, "file")],
				Accept: rapid.IntRange(0, 2).Draw(t, "accept") == 0})
		}
	}
	return c
}

func execC17(t *testing.T, c C17Case) *Verdict {
	symPoolOnce.Do(buildSymPool)
	syms := &linker.Symbols{}
	pool := poolFor(c.Gen)
	model := newSymModel(pool)
	st := sim.S()
	st.Sample(c, 3)
	failed := 0
	compareAll := func(after string) *Verdict {
		for _, n := range pool.universe {
			span := syms.Lookup(protoreflect.FullName(n))
			got := span != nil
			want := model.names[n] == "symbol"
			if got != want {
				return viol("C17/lookup-disagrees-with-model", "after %s: Lookup(%q) found=%v, but the files whose import succeeded %s it", after, n, got, map[bool]string{true: "define", false: "do not define"}[want])
			}
			if got && span.Start().Filename != model.nameOwner[n] {
				return viol("C17/lookup-names-wrong-file", "after %s: Lookup(%q) points into %q, but the symbol was imported from %q", after, n, span.Start().Filename, model.nameOwner[n])
			}
		}
		for _, e := range pool.exts {
			var tag int
			fmt.Sscan(e[1], &tag)
			span := syms.LookupExtension(protoreflect.FullName(e[0]), protoreflect.FieldNumber(tag))
			got := span != nil
			if want := model.exts[e]; got != want {
				return viol("C17/lookup-extension-disagrees-with-model", "after %s: LookupExtension(%s, %s) found=%v, model says %v", after, e[0], e[1], got, want)
			}
			if got && span.Start().Filename != model.extOwner[e] {
				return viol("C17/lookup-extension-names-wrong-file", "after %s: LookupExtension(%s, %s) points into %q, but the number was registered by the import of %q", after, e[0], e[1], span.Start().Filename, model.extOwner[e])
			}
		}
		return nil
	}
	for i, op := range c.Ops {
		switch op.Kind {
		case "import":
			f := pool.files[op.File]
			if f == nil {
				continue
			}
			var reported []string
			var rep reporter.Reporter
			if op.Accept {
				rep = reporter.NewReporter(func(e reporter.ErrorWithPos) error {
					reported = append(reported, e.Error())
					return nil
				}, nil)
			}
			h := reporter.NewHandler(rep)
			err := syms.Import(f.fd, h)
			if err == nil {
				// with an accepting reporter the failure shows in the handler
				err = h.Error()
			}
			if err != nil && len(reported) > 0 {
				err = fmt.Errorf("%w: %s", err, strings.Join(reported, "; "))
			}
			// The model decides on a copy: a failed import leaves the model as it
			// was, except for the file's dependencies, each of which is an import
			// of another file in its own right that the failed import may or may
			// not have performed first: whatever dependency is visibly there, and
			// could be there, is taken over into the model (dependencies of
			// dependencies first).
			trial := model.clone()
			want := trial.tryImport(op.File)
			if want {
				model = trial
			} else {
				var takeOver func(name string)
				takeOver = func(name string) {
					for _, d := range pool.files[name].deps {
						takeOver(d)
						if dep := pool.files[d]; !model.committed[d] && len(dep.symbols) > 0 && syms.Lookup(protoreflect.FullName(dep.symbols[0])) != nil {
							model.tryImport(d)
						}
					}
				}
				takeOver(op.File)
			}
			desc := fmt.Sprintf("op %d Import(%s) [err=%v]", i, op.File, err)
			if err != nil {
				failed++
				st.Fault("import-collision")
			}
			if (err == nil) != want {
				if want {
					if strings.Contains(err.Error(), "already defined as a package") {
						return viol("C17/later-import-collides-with-package-left-by-failed-import", "%s: the files imported successfully so far (%v) define no such package — a failed import registered its packages and left them behind", desc, sortedStrs(model.committed))
					}
					return viol("C17/import-fails-unexpectedly", "%s: the model (files imported successfully so far: %v) has no collision for it — an earlier failed import must have left something behind", desc, sortedStrs(model.committed))
				}
				return viol("C17/collision-not-reported", "%s: the model expects a collision with the files imported so far %v", desc, sortedStrs(model.committed))
			}
			if v := compareAll(desc); v != nil {
				if err != nil {
					// Name the kind of collision that made the import fail, so that a
					// recorded finding for one kind cannot hide the other.
					kind := "other"
					switch {
					case strings.Contains(err.Error(), "extension with tag"):
						kind = "extension-number-collision"
					case strings.Contains(err.Error(), "already defined"):
						kind = "name-collision"
					}
					v.Class = "C17/failed-import-visible/" + kind
				}
				return v
			}
		case "lookup":
			got := syms.Lookup(protoreflect.FullName(op.Name)) != nil
			if want := model.names[op.Name] == "symbol"; got != want {
				return viol("C17/lookup-disagrees-with-model", "op %d Lookup(%q) found=%v, model %v", i, op.Name, got, want)
			}
		case "lookup-ext":
			var tag int
			fmt.Sscan(op.Tag, &tag)
			got := syms.LookupExtension(protoreflect.FullName(op.Name), protoreflect.FieldNumber(tag)) != nil
			if want := model.exts[[2]string{op.Name, op.Tag}]; got != want {
				return viol("C17/lookup-extension-disagrees-with-model", "op %d LookupExtension(%s,%s) found=%v, model %v", i, op.Name, op.Tag, got, want)
			}
		}
	}
	st.Runs++
	st.Case(fmt.Sprintf("%v", c.Ops), failed > 0)
	return nil
}

func sortedStrs(m map[string]bool) []string {
	var out []string
	for k := range m {
		out = append(out, k)
	}
	sort.Strings(out)
	return out
}

func TestC17(t *testing.T) { runProp(t, "C17", genC17, execC17) }
