//go:build verif

package props

import (
	"context"
	"fmt"
	"sort"
	"strings"
	"testing"

	"google.golang.org/protobuf/proto"
	"google.golang.org/protobuf/types/descriptorpb"
	"pgregory.net/rapid"

	"github.com/bufbuild/protocompile"
	"github.com/bufbuild/protocompile/ast"
	"github.com/bufbuild/protocompile/parser"
	"github.com/bufbuild/protocompile/reporter"

	"verifharness/sim"
)

// C09: all input forms give the same result and supplied inputs are not mutated.
type C09Case struct {
	WL      CompileWL `json:"workload"`
	SrcInfo int       `json:"srcinfo"`
	// ProtoSrcInfo: the supplied descriptor protos carry source code info (as
	// protoc --include_source_info writes them).
	ProtoSrcInfo bool        `json:"proto_with_source_info,omitempty"`
	Clients      []C09Client `json:"clients"`
	Sched        Sched       `json:"sched"`
}

type C09Client struct {
	Run   CompileRun        `json:"run"`
	Forms map[string]string `json:"forms"` // file -> source | ast | parse | proto
}

var formNames = []string{"source", "ast", "parse", "proto"}

func genC09(t *rapid.T) C09Case {
	wl := genCompileWL(t, 6, false)
	c := C09Case{WL: wl, SrcInfo: srcInfoModes[rapid.IntRange(0, len(srcInfoModes)-1).Draw(t, "srcinfo")]}
	c.ProtoSrcInfo = rapid.IntRange(0, 2).Draw(t, "protoSrcInfo") == 0
	req := genRequest(t, wl.names())
	n := rapid.IntRange(1, 2).Draw(t, "nclients")
	for i := 0; i < n; i++ {
		cl := C09Client{Forms: map[string]string{}}
		cl.Run = CompileRun{
			Par:     []int{1, 2, 4}[rapid.IntRange(0, 2).Draw(t, "par")],
			Request: genPermutation(t, req, false),
		}
		for _, f := range wl.names() {
			cl.Forms[f] = formNames[rapid.IntRange(0, 3).Draw(t, "form")]
		}
		c.Clients = append(c.Clients, cl)
	}
	c.Sched = genSched(t, &wl, compileOptional, 300)
	return c
}

type suppliedObjects struct {
	asts   map[string]*ast.FileNode
	parses map[string]parser.Result
	protos map[string]*descriptorpb.FileDescriptorProto
}

func detBytes(m proto.Message) string {
	b, err := proto.MarshalOptions{Deterministic: true}.Marshal(m)
	if err != nil {
		return "marshal error: " + err.Error()
	}
	return string(b)
}

func buildSupplied(wl *CompileWL) (*suppliedObjects, error) {
	s := &suppliedObjects{asts: map[string]*ast.FileNode{}, parses: map[string]parser.Result{}, protos: map[string]*descriptorpb.FileDescriptorProto{}}
	for _, f := range wl.Files {
		h := reporter.NewHandler(nil)
		a, err := parser.Parse(f.Name, strings.NewReader(f.Text), h)
		if err != nil {
			return nil, err
		}
		pr, err := parser.ResultFromAST(a, true, h)
		if err != nil {
			return nil, err
		}
		// a second, independent AST for the "ast" form so that the parse result's
		// own AST is not the object handed out twice
		a2, err := parser.Parse(f.Name, strings.NewReader(f.Text), reporter.NewHandler(nil))
		if err != nil {
			return nil, err
		}
		s.asts[f.Name] = a2
		s.parses[f.Name] = pr
		s.protos[f.Name] = proto.Clone(pr.FileDescriptorProto()).(*descriptorpb.FileDescriptorProto)
	}
	return s, nil
}

func (s *suppliedObjects) snapshot() map[string]string {
	out := map[string]string{}
	for n, p := range s.protos {
		out["proto:"+n] = detBytes(p)
	}
	for n, p := range s.parses {
		out["parse:"+n] = detBytes(p.FileDescriptorProto())
	}
	return out
}

func formResolver(wl *CompileWL, s *suppliedObjects, forms map[string]string) protocompile.Resolver {
	src := wl.sources()
	return protocompile.WithStandardImports(protocompile.ResolverFunc(func(path string) (protocompile.SearchResult, error) {
		text, ok := src[path]
		if !ok {
			return protocompile.SearchResult{}, errNotFound
		}
		switch forms[path] {
		case "ast":
			return protocompile.SearchResult{AST: s.asts[path]}, nil
		case "parse":
			return protocompile.SearchResult{ParseResult: s.parses[path]}, nil
		case "proto":
			return protocompile.SearchResult{Proto: s.protos[path]}, nil
		}
		return protocompile.SearchResult{Source: strings.NewReader(text)}, nil
	}))
}

// invalidReference decides what a failing all-source reference compile of a
// workload that is meant to be valid means: if the very same files compile
// when every one of them is supplied as an unlinked descriptor proto, the input
// form changes the outcome (a violation); if they fail in that form too, the
// workload generator is wrong (a harness fault).
func invalidReference(prop string, wl *CompileWL, request []string, ref compileResult) *Verdict {
	supplied, err := buildSupplied(wl)
	if err != nil {
		panic(sim.HarnessFault{Msg: fmt.Sprintf("%s cannot pre-parse its own workload: %v (reference compile: %v)", prop, err, ref.err)})
	}
	forms := map[string]string{}
	for _, f := range wl.names() {
		forms[f] = "proto"
	}
	var alt compileResult
	comp := &protocompile.Compiler{Resolver: formResolver(wl, supplied, forms), MaxParallelism: 1}
	if msg := quiesced(func() { alt = doCompile(context.Background(), comp, request) }); msg != "" || alt.err != nil {
		panic(sim.HarnessFault{Msg: fmt.Sprintf("%s workload generator produced an invalid workload: %v (as descriptor protos: %v %s)", prop, ref.err, alt.err, msg)})
	}
	return viol("C09/form-changes-outcome", "with every file supplied as source the compilation fails (%v), with every file supplied as an unlinked descriptor proto it succeeds", ref.err)
}

// stripSourceInfo re-encodes a FileDescriptorProto without source code info.
func stripSourceInfo(b []byte) string {
	var fd descriptorpb.FileDescriptorProto
	if err := proto.Unmarshal(b, &fd); err != nil {
		return "unmarshal error: " + err.Error()
	}
	fd.SourceCodeInfo = nil
	return detBytes(&fd)
}

func execC09(t *testing.T, c C09Case) *Verdict {
	ref := refCompile(&c.WL, c.Clients[0].Run.Request, c.SrcInfo, nil)
	if v := refTroubleVerdict("C09", ref); v != nil {
		return v
	}
	if ref.err != nil {
		return invalidReference("C09", &c.WL, c.Clients[0].Run.Request, ref)
	}
	supplied, err := buildSupplied(&c.WL)
	if err != nil {
		panic(sim.HarnessFault{Msg: fmt.Sprintf("C09 cannot pre-parse its own workload: %v", err)})
	}
	if c.ProtoSrcInfo {
		withInfo := refCompile(&c.WL, c.WL.names(), 1, nil)
		for name, p := range supplied.protos {
			var linked descriptorpb.FileDescriptorProto
			if b, ok := withInfo.files[name]; ok && proto.Unmarshal(b, &linked) == nil {
				p.SourceCodeInfo = linked.SourceCodeInfo
			}
		}
	}
	before := supplied.snapshot()
	results := make([]compileResult, len(c.Clients))
	var clients []sim.Client
	for i := range c.Clients {
		i := i
		cl := c.Clients[i]
		clients = append(clients, sim.Client{Name: fmt.Sprintf("c%d", i), Fn: func() {
			comp := &protocompile.Compiler{
				Resolver:       formResolver(&c.WL, supplied, cl.Forms),
				MaxParallelism: cl.Run.Par,
				SourceInfoMode: protocompile.SourceInfoMode(c.SrcInfo),
			}
			results[i] = doCompile(context.Background(), comp, cl.Run.Request)
		}})
	}
	out := sim.RunBubble(t, bubbleCfg(&c.Sched, stepBudget(&c.WL)*len(c.Clients)), clients, nil)
	st := sim.S()
	st.Sample(c, 3)
	nonSource := 0
	for _, cl := range c.Clients {
		for _, f := range cl.Forms {
			if f != "source" {
				nonSource++
			}
			st.Probe("form:" + f)
		}
	}
	st.Case(fmt.Sprintf("%v|%v|%d|%d", c.WL.Files, c.Clients, c.SrcInfo, out.TraceHash), nonSource > 0)
	if v := hangVerdict("C09", out); v != nil {
		return v
	}
	for i, cl := range c.Clients {
		r := results[i]
		if !r.returned {
			return viol("C09/deadlock", "client %d did not return", i).with(out)
		}
		if r.panicked != nil {
			return viol("C09/compile-panicked-on-caller", "client %d: %v", i, r.panicked).with(out)
		}
		if r.err != nil {
			return viol("C09/form-changes-outcome", "all-source compile succeeds but client %d (forms %v) failed: %v", i, cl.Forms, r.err).with(out)
		}
		for k, n := range cl.Run.Request {
			if r.paths[k] != n {
				return viol("C09/result-order", "client %d result %d is %q, want %q", i, k, r.paths[k], n).with(out)
			}
		}
		var names []string
		for n := range ref.files {
			names = append(names, n)
		}
		sort.Strings(names)
		for _, n := range names {
			got, ok := r.files[n]
			if !ok {
				return viol("C09/descriptor-differs", "client %d: closure lacks %s", i, n).with(out)
			}
			want := ref.files[n]
			if cl.Forms[n] == "proto" && c.SrcInfo != 0 {
				// a descriptor proto carries no AST, so no source info can be generated for
				// it (with source info switched off every form must come out without any)
				if stripSourceInfo(got) != stripSourceInfo(want) {
					return viol("C09/descriptor-differs", "client %d: %s supplied as %s differs from the all-source result (ignoring source info)", i, n, cl.Forms[n]).with(out)
				}
				continue
			}
			if string(got) != string(want) {
				return viol("C09/descriptor-differs", "client %d: %s supplied as %q differs from the all-source result (%d vs %d bytes)", i, n, cl.Forms[n], len(got), len(want)).with(out)
			}
		}
	}
	after := supplied.snapshot()
	var keys []string
	for k := range before {
		keys = append(keys, k)
	}
	sort.Strings(keys)
	for _, k := range keys {
		if before[k] != after[k] {
			return viol("C09/input-mutated", "supplied object %s was modified by compilation", k).with(out)
		}
	}
	return nil
}

func TestC09(t *testing.T) { runProp(t, "C09", genC09, execC09) }
