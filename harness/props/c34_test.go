//go:build verif

package props

import (
	"context"
	"errors"
	"fmt"
	"testing"

	"pgregory.net/rapid"

	"github.com/bufbuild/protocompile/experimental/incremental"

	"verifharness/sim"
)

// C34: the incremental executor terminates on cycles and panics.
type C34Case struct {
	Graph      GraphSpec `json:"graph"`
	Par        int       `json:"par"`
	Panics     []int     `json:"panics,omitempty"` // nodes that panic once ("until faults stop")
	Concurrent bool      `json:"concurrent"`       // one client per root set, one Run each (else one client, two Runs in sequence)
	Roots      [][]int   `json:"roots"`            // roots of the first and second Run
	Sched      Sched     `json:"sched"`
}

func genC34(t *rapid.T) C34Case {
	c := C34Case{Graph: genGraph(t, 6, rapid.IntRange(0, 3).Draw(t, "dag") == 0), Par: rapid.IntRange(1, 4).Draw(t, "par")}
	np := rapid.IntRange(0, 2).Draw(t, "npanics")
	for i := 0; i < np; i++ {
		c.Panics = append(c.Panics, rapid.IntRange(0, c.Graph.N-1).Draw(t, "panicNode"))
	}
	c.Concurrent = rapid.IntRange(0, 3).Draw(t, "concurrent") == 0
	c.Roots = [][]int{genRoots(t, c.Graph.N), genRoots(t, c.Graph.N)}
	if c.Concurrent && rapid.IntRange(0, 1).Draw(t, "third") == 0 {
		c.Roots = append(c.Roots, genRoots(t, c.Graph.N))
	}
	c.Sched = Sched{Tape: genTape(t, 400), Disabled: genDisabled(t, incrOptional), PCT: genPCT(t, 200), Tail: genTail(t)}
	return c
}

func graphEdge(g *GraphSpec, a, b int) bool {
	if a < 0 || a >= g.N {
		return false
	}
	for _, d := range g.Deps[a] {
		if d == b {
			return true
		}
	}
	return false
}

// closureHasCycle reports whether the dependency closure of root contains a cycle.
func closureHasCycle(w *gworld, root int) bool {
	nodes := w.downClosure([]int{root})
	color := map[int]int{}
	var visit func(n int) bool
	visit = func(n int) bool {
		color[n] = 1
		for _, d := range w.g.Deps[n] {
			if !nodes[d] {
				continue
			}
			if color[d] == 1 {
				return true
			}
			if color[d] == 0 && visit(d) {
				return true
			}
		}
		color[n] = 2
		return false
	}
	return visit(root)
}

func checkCycleErr(w *gworld, fatal error) string {
	var ec *incremental.ErrCycle
	if !errors.As(fatal, &ec) {
		return fmt.Sprintf("fatal error is %T (%v), not a cycle error", fatal, fatal)
	}
	if len(ec.Cycle) < 2 {
		return fmt.Sprintf("cycle error names only %d queries", len(ec.Cycle))
	}
	var ids []int
	for _, q := range ec.Cycle {
		k, ok := q.Key().(gqKey)
		if !ok {
			return fmt.Sprintf("cycle element has key %#v", q.Key())
		}
		ids = append(ids, k.ID)
	}
	for i := 0; i+1 < len(ids); i++ {
		if !graphEdge(&w.g, ids[i], ids[i+1]) {
			return fmt.Sprintf("cycle %v: query %d does not depend on query %d", ids, ids[i], ids[i+1])
		}
	}
	if ids[0] != ids[len(ids)-1] {
		return fmt.Sprintf("cycle %v is not closed", ids)
	}
	return ""
}

func execC34(t *testing.T, c C34Case) *Verdict {
	w := newWorld("C34", c.Graph, c.Par)
	for _, p := range c.Panics {
		w.panicsLeft[p] = 1
	}
	var phase2Started bool

	// checkRun validates one returned Run. thrownBefore is what had been thrown
	// when the run started.
	checkRun := func(rr runResult) {
		if rr.panicked != nil {
			w.fail(viol("C34/run-panicked", "Run(%v) panicked on the caller instead of returning: %v", rr.roots, rr.panicked))
			return
		}
		var mine []*panicVal
		for _, pv := range w.thrown {
			if pv.Run == rr.tag {
				mine = append(mine, pv)
			}
		}
		if len(mine) > 0 {
			var ep *incremental.ErrPanic
			if rr.err == nil || !errors.As(rr.err, &ep) {
				w.fail(viol("C34/panic-not-reported", "query %d panicked during run %d but Run returned err=%v", mine[0].Node, rr.tag, rr.err))
				return
			}
			ok := false
			for _, pv := range mine {
				if ep.Panic == any(pv) {
					ok = true
					if k, isKey := ep.Query.Key().(gqKey); !isKey || k.ID != pv.Node {
						w.fail(viol("C34/panic-error-wrong-query", "ErrPanic names query %#v but query %d panicked", ep.Query.Key(), pv.Node))
						return
					}
				}
			}
			if !ok {
				w.fail(viol("C34/panic-value-lost", "run %d: ErrPanic carries %v which is none of the values thrown in this run", rr.tag, ep.Panic))
			}
			sim.S().Probe("run:err-panic")
			return
		}
		if rr.err != nil {
			w.fail(viol("C34/run-failed-without-fault", "run %d: no query of this run panicked and the context was not cancelled, but Run returned %v", rr.tag, rr.err))
			return
		}
		// A Run that returns without an error is judged in full even when another
		// query panicked earlier or concurrently (in another Run): what a panicking
		// Run leaves behind is never memoised, so this Run computed, or found
		// memoised, proper results.
		if len(w.thrown) > 0 {
			sim.S().Probe("run:judged-after-panic")
		}
		cache := map[int]int64{}
		for i, r := range rr.roots {
			res := rr.results[i]
			if closureHasCycle(w, r) {
				if res.Fatal == nil {
					w.fail(viol("C34/cycle-not-reported", "run %d: the dependencies of query %d contain a cycle but it succeeded with value %d", rr.tag, r, res.Value))
					return
				}
				if why := checkCycleErr(w, res.Fatal); why != "" {
					w.fail(viol("C34/bogus-cycle-error", "run %d root %d: %s", rr.tag, r, why))
					return
				}
				sim.S().Probe("run:cycle-error")
				continue
			}
			if res.Fatal != nil {
				w.fail(viol("C34/error-on-acyclic-graph", "run %d: query %d has an acyclic dependency closure but failed: %v", rr.tag, r, res.Fatal))
				return
			}
			if want := w.modelValue(r, cache); res.Value != want {
				w.fail(viol("C34/wrong-value", "run %d: query %d returned %d, fresh computation gives %d", rr.tag, r, res.Value, want))
				return
			}
		}
		sim.S().Probe("run:ok")
	}

	var clients []sim.Client
	if c.Concurrent {
		w.concurrentPanicPossible = true
		for i := range c.Roots {
			i := i
			clients = append(clients, sim.Client{Name: fmt.Sprintf("c%d", i), Fn: func() {
				sim.Yield("h.op", "")
				checkRun(w.doRun(context.Background(), c.Roots[i]))
			}})
		}
	} else {
		clients = append(clients, sim.Client{Name: "c0", Fn: func() {
			sim.Yield("h.op", "")
			checkRun(w.doRun(context.Background(), c.Roots[0]))
			if w.viol != nil {
				return
			}
			sim.Yield("h.op", "")
			// Faults have stopped (every planned panic fires once). The second
			// run asks for the second root set plus everything that panicked.
			roots := append([]int(nil), c.Roots[1]...)
			asked := append([]*panicVal(nil), w.thrown...)
			for _, pv := range asked {
				roots = append(roots, pv.Node)
			}
			phase2Started = true
			rr := w.doRun(context.Background(), roots)
			checkRun(rr)
			if w.viol != nil || rr.err != nil {
				return
			}
			// The panicked execution must not have been memoised: every query that
			// panicked has by now been executed again, after its last panic.
			// (A straggler of run 1 may panic later still; only what was asked for counts.)
			for _, pv := range asked {
				if w.panicsLeft[pv.Node] == 0 && w.execCount[pv.Node] <= pv.ExecNo {
					w.fail(viol("C34/panicked-query-cached", "execution #%d of query %d panicked (run %d); run %d asked for the query again but it was never executed again", pv.ExecNo, pv.Node, pv.Run, rr.tag))
					return
				}
			}
		}})
	}
	out := sim.RunBubble(t, incrBubbleCfg(&c.Sched, w, incrBudget(&c.Graph, 3)), clients, nil)
	st := sim.S()
	st.Sample(c, 3)
	cyc := false
	for r := 0; r < c.Graph.N; r++ {
		if closureHasCycle(w, r) {
			cyc = true
		}
	}
	st.Case(fmt.Sprintf("%v|%d|%v|%v|%v|%d", c.Graph, c.Par, c.Panics, c.Concurrent, c.Roots, out.TraceHash), cyc || len(w.thrown) > 0)
	if cyc {
		st.Probe("graph:cyclic")
	}
	if out.Deadlock || out.Budget {
		v := hangVerdict("C34", out)
		switch {
		case out.Deadlock && c.Concurrent && len(w.thrown) > 0:
			v.Class = "C34/concurrent-run-hangs-after-panic-in-other-run"
		case out.Deadlock && !c.Concurrent && phase2Started && len(w.thrown) > 0:
			v.Class = "C34/next-run-hangs-after-panic"
		}
		return v
	}
	if v := hangVerdict("C34", out); v != nil {
		return v
	}
	if w.viol != nil {
		return w.viol.with(out)
	}
	if !w.exec.VerifSemaIdle(int64(c.Par)) {
		return viol("C34/permits-not-released", "after every run returned and every goroutine finished, not all %d semaphore permits are available", c.Par).with(out)
	}
	return nil
}

func TestC34(t *testing.T) { runProp(t, "C34", genC34, execC34) }
