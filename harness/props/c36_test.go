//go:build verif

package props

import (
	"context"
	"fmt"
	"testing"

	"pgregory.net/rapid"

	"github.com/bufbuild/protocompile/experimental/report"
	"github.com/bufbuild/protocompile/experimental/source"

	"verifharness/sim"
)

// C36: diagnostics are deterministic.
type C36Case struct {
	WL    CompileWL `json:"workload"`
	Roots []string  `json:"workspace"`
	Runs  []C36Run  `json:"runs"`
	// Concurrent: a second client compiles the same workspace on the same
	// executor at the same time (its runs are all warm); every report of either
	// client must equal the reference.
	Concurrent int `json:"concurrent_runs,omitempty"`
	// ConcEvict[i] != "": before its i-th run the second client evicts that
	// file's queries (the file itself does not change, so nothing may change
	// in any report).
	ConcEvict []string  `json:"concurrent_evictions,omitempty"`
	Perm      []int     `json:"perm"`  // permutation seed for the Canonicalize oracle
	Synth     []SynDiag `json:"synth"` // synthetic diagnostics for the Canonicalize oracle
	Sched     Sched     `json:"sched"`
}

type C36Run struct {
	Par  int  `json:"par"`
	Warm bool `json:"warm"` // reuse the previous run's executor instead of a brand-new one
}

// SynDiag is a synthetic diagnostic drawn from small pools so that ties and
// tagged duplicates are common.
type SynDiag struct {
	File    int    `json:"file"` // -1: no span, InFile only
	InFile  string `json:"in_file,omitempty"`
	Start   int    `json:"start"`
	End     int    `json:"end"`
	Tag     string `json:"tag,omitempty"`
	Message string `json:"message"`
	Level   int    `json:"level"`
	Note    string `json:"note,omitempty"`
	SnipMsg string `json:"snippet_message,omitempty"` // text on the primary snippet
	Sec     int    `json:"secondary,omitempty"`       // >0: a secondary snippet starting at Sec-1 in the same file
	SecMsg  string `json:"secondary_message,omitempty"`
	Help    string `json:"help,omitempty"`
}

func genC36(t *rapid.T) C36Case {
	wl := genErrorWL(t)
	wl.dropOverride() // (the experimental compiler takes descriptor.proto from source.WKTs())
	c := C36Case{WL: wl, Roots: genRequest(t, wl.names())}
	if rapid.IntRange(0, 3).Draw(t, "hub") == 0 {
		c.Roots = addHubClash(t, &c.WL)
	}
	n := rapid.IntRange(2, 4).Draw(t, "nruns")
	for i := 0; i < n; i++ {
		c.Runs = append(c.Runs, C36Run{Par: rapid.IntRange(1, 4).Draw(t, "par"), Warm: i > 0 && rapid.IntRange(0, 3).Draw(t, "warm") == 0})
	}
	if rapid.IntRange(0, 3).Draw(t, "concurrent") == 0 {
		c.Concurrent = rapid.IntRange(1, 3).Draw(t, "nconcurrent")
		for i := 0; i < c.Concurrent; i++ {
			ev := ""
			if rapid.IntRange(0, 1).Draw(t, "concEvict") == 0 {
				names := c.WL.names()
				ev = names[rapid.IntRange(0, len(names)-1).Draw(t, "concEvictFile")]
			}
			c.ConcEvict = append(c.ConcEvict, ev)
		}
	}
	for i := 0; i < 12; i++ {
		c.Perm = append(c.Perm, rapid.IntRange(0, 1000).Draw(t, "perm"))
	}
	ns := rapid.IntRange(0, 7).Draw(t, "nsynth")
	for i := 0; i < ns; i++ {
		d := SynDiag{
			File:    rapid.IntRange(-1, 1).Draw(t, "sfile"),
			Start:   rapid.IntRange(0, 3).Draw(t, "sstart"),
			Tag:     []string{"", "", "t1", "t2"}[rapid.IntRange(0, 3).Draw(t, "stag")],
			Message: []string{"m1", "m2", "m3"}[rapid.IntRange(0, 2).Draw(t, "smsg")],
			Level:   rapid.IntRange(0, 1).Draw(t, "slevel"),
			Note:    []string{"", "n1", "n2"}[rapid.IntRange(0, 2).Draw(t, "snote")],
		}
		d.End = d.Start + rapid.IntRange(0, 2).Draw(t, "slen")
		d.SnipMsg = []string{"", "", "s1", "s2"}[rapid.IntRange(0, 3).Draw(t, "ssnip")]
		if d.File >= 0 && rapid.IntRange(0, 2).Draw(t, "ssec") == 0 {
			d.Sec = 1 + rapid.IntRange(4, 6).Draw(t, "ssecAt")
			d.SecMsg = []string{"", "x1", "x2"}[rapid.IntRange(0, 2).Draw(t, "ssecMsg")]
		}
		d.Help = []string{"", "", "h1"}[rapid.IntRange(0, 2).Draw(t, "shelp")]
		if d.File < 0 {
			d.InFile = []string{"a.proto", "b.proto"}[rapid.IntRange(0, 1).Draw(t, "sinfile")]
		}
		c.Synth = append(c.Synth, d)
	}
	c.Sched = Sched{Tape: genTape(t, 500), Disabled: genDisabled(t, incrOptional), PCT: genPCT(t, 200), Tail: genTail(t)}
	return c
}

var synFiles = []*source.File{source.NewFile("s0.proto", "0123456789\n"), source.NewFile("s1.proto", "abcdefghij\n")}

func buildSynth(ds []SynDiag, order []int) *report.Report {
	r := &report.Report{}
	for _, i := range order {
		d := ds[i]
		var diag *report.Diagnostic
		if d.Level == 0 {
			diag = r.Errorf("%s", d.Message)
		} else {
			diag = r.Warnf("%s", d.Message)
		}
		if d.File >= 0 {
			if d.SnipMsg != "" {
				diag.Apply(report.Snippetf(synFiles[d.File].Span(d.Start, d.End), "%s", d.SnipMsg))
			} else {
				diag.Apply(report.Snippet(synFiles[d.File].Span(d.Start, d.End)))
			}
			if d.Sec > 0 {
				diag.Apply(report.Snippetf(synFiles[d.File].Span(d.Sec-1, d.Sec), "%s", d.SecMsg))
			}
		} else {
			diag.Apply(report.InFile(d.InFile))
		}
		if d.Tag != "" {
			diag.Apply(report.Tag(d.Tag))
		}
		if d.Note != "" {
			diag.Apply(report.Notef("%s", d.Note))
		}
		if d.Help != "" {
			diag.Apply(report.Helpf("%s", d.Help))
		}
	}
	return r
}

func permutation(n int, seeds []int, k int) []int {
	p := make([]int, n)
	for i := range p {
		p[i] = i
	}
	for i := n - 1; i > 0; i-- {
		j := (seeds[(i+k)%len(seeds)] + k*7) % (i + 1)
		p[i], p[j] = p[j], p[i]
	}
	return p
}

func renderReport(r *report.Report) string {
	s, _, _ := report.Renderer{}.RenderString(r)
	return s
}

// canonicalizeOracle checks order-independence and idempotence of
// Report.Canonicalize on a list of diagnostics.
func canonicalizeOracle(build func(order []int) *report.Report, n int, seeds []int, what string) *Verdict {
	if n == 0 {
		return nil
	}
	ident := permutation(n, []int{0}, 0)
	for i := range ident {
		ident[i] = i
	}
	base := build(ident)
	base.Canonicalize()
	want := renderReport(base)
	base.Canonicalize()
	if again := renderReport(base); again != want {
		return viol("C36/canonicalize-not-idempotent", "%s: canonicalizing twice changes the report:\n%s\nvs\n%s", what, want, again)
	}
	for k := 1; k <= 3; k++ {
		p := permutation(n, seeds, k)
		r := build(p)
		r.Canonicalize()
		if got := renderReport(r); got != want {
			return viol("C36/canonicalize-order-dependent", "%s: input order %v canonicalizes to\n%s\nbut order %v to\n%s", what, p, got, ident, want)
		}
	}
	return nil
}

func execC36(t *testing.T, c C36Case) *Verdict {
	st := sim.S()
	st.Sample(c, 2)
	// (1) Canonicalize on synthetic lists with ties and tagged duplicates.
	if v := canonicalizeOracle(func(order []int) *report.Report { return buildSynth(c.Synth, order) }, len(c.Synth), c.Perm, "synthetic diagnostics"); v != nil {
		return v
	}
	// (2) The same workspace compiled repeatedly: unsimulated reference first.
	var ref expOutcome
	if msg := quiesced(func() {
		ref = newExpEnv(&simOpener{files: c.WL.userSources(), transient: map[string]bool{}}, c.Roots, 1).compile(context.Background())
	}); msg != "" {
		return viol("C36/unsimulated-run-hangs", "%s", msg)
	}
	if ref.err != nil || ref.panicked != nil {
		return viol("C36/run-failed", "unsimulated Run failed: %v %v", ref.err, ref.panicked)
	}
	var v *Verdict
	judge := func(who string, i int, r C36Run, got expOutcome) bool {
		if v != nil {
			return false
		}
		switch {
		case got.err != nil || got.panicked != nil:
			v = viol("C36/run-failed", "%s run %d failed: %v %v", who, i, got.err, got.panicked)
		case !sameMultiset(got.diags, ref.diags):
			v = viol("C36/diagnostics-differ", "%s run %d (par %d, warm %v) reports different diagnostics than the unsimulated run:\n%s\nvs\n%s", who, i, r.Par, r.Warm, got.rendered, ref.rendered)
		case got.rendered != ref.rendered:
			v = viol("C36/diagnostics-order-differs", "%s run %d (par %d, warm %v) reports the same diagnostics in a different order:\n%s\nvs\n%s", who, i, r.Par, r.Warm, got.rendered, ref.rendered)
		}
		if v != nil {
			if textHasImportCycle(c.WL.userSources(), c.Roots) {
				v.Class += "-with-import-cycle"
			}
			return false
		}
		return true
	}
	var env *expEnv // the executor of the current run of c0, shared with c1
	client := sim.Client{Name: "c0", Fn: func() {
		for i, r := range c.Runs {
			sim.Yield("h.op", "")
			if env == nil || !r.Warm {
				env = newExpEnv(&simOpener{files: c.WL.userSources(), transient: map[string]bool{}}, c.Roots, r.Par)
			}
			got := env.compile(context.Background())
			if !judge("client c0", i, r, got) {
				return
			}
			// (3) Canonicalize on the real diagnostics, permuted.
			if got.report != nil {
				ds := got.report.Diagnostics
				opts := got.report.Options
				if cv := canonicalizeOracle(func(order []int) *report.Report {
					r := &report.Report{Options: opts}
					for _, k := range order {
						r.Diagnostics = append(r.Diagnostics, ds[k])
					}
					return r
				}, len(ds), c.Perm, "diagnostics of a real run"); cv != nil {
					v = cv
					return
				}
			}
		}
	}}
	clients := []sim.Client{client}
	if c.Concurrent > 0 {
		clients = append(clients, sim.Client{Name: "c1", Fn: func() {
			for i := 0; i < c.Concurrent; i++ {
				sim.Yield("h.op", "")
				e := env
				if e == nil {
					continue // c0 has not created an executor yet
				}
				if i < len(c.ConcEvict) && c.ConcEvict[i] != "" {
					sim.S().Fault("evict-unchanged-file")
					e.evict([]string{c.ConcEvict[i]})
				}
				sim.S().Probe("concurrent-run-on-shared-executor")
				got := e.compile(context.Background())
				if !judge("client c1 (concurrent, same executor)", i, C36Run{Warm: true}, got) {
					return
				}
			}
		}})
	}
	cfg := incrBubbleCfg(&c.Sched, &gworld{}, 100000)
	cfg.Guards = map[string]func() bool{
		// an eviction reaches the executor's exclusive lock only while that lock
		// can really be taken (probed, not modelled) and nothing a Run spawned is
		// still alive
		"i.evict.lock": func() bool {
			if env == nil {
				return true
			}
			canLock, _ := env.exec.VerifDirtyState()
			return canLock && !sim.SpawnedParked()
		},
	}
	out := sim.RunBubble(t, cfg, clients, nil)
	st.Case(fmt.Sprintf("%v|%v|%v|%v|%d", c.WL.Files, c.Roots, c.Runs, c.Synth, out.TraceHash), ref.ndiag > 1)
	st.ProbeN("diagnostics-in-reference", int64(ref.ndiag))
	if hv := hangVerdict("C36", out); hv != nil {
		return hv
	}
	return v.with(out)
}

func TestC36(t *testing.T) { runProp(t, "C36", genC36, execC36) }
