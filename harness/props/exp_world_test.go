//go:build verif

package props

import (
	"context"
	"errors"
	"fmt"
	"io/fs"
	"regexp"
	"sort"
	"strings"

	"google.golang.org/protobuf/proto"
	"google.golang.org/protobuf/types/descriptorpb"
	"pgregory.net/rapid"

	"github.com/bufbuild/protocompile/experimental/fdp"
	"github.com/bufbuild/protocompile/experimental/incremental"
	"github.com/bufbuild/protocompile/experimental/incremental/queries"
	"github.com/bufbuild/protocompile/experimental/ir"
	"github.com/bufbuild/protocompile/experimental/report"
	"github.com/bufbuild/protocompile/experimental/source"

	"verifharness/sim"
)

// simOpener is the simulated disk of the experimental compiler: an in-memory,
// versioned file map with pointer identity, which can also fail transiently.
type simOpener struct {
	files     map[string]string
	transient map[string]bool
	opens     int
}

var errTransientOpen = errors.New("injected transient open error")

func (o *simOpener) Open(path string) (*source.File, error) {
	o.opens++
	if o.transient[path] {
		sim.S().Fault("opener-transient-error")
		return nil, errTransientOpen
	}
	text, ok := o.files[path]
	if !ok {
		if !strings.HasPrefix(path, "google/protobuf/") {
			sim.S().Fault("opener-notfound")
		}
		return nil, fs.ErrNotExist
	}
	return source.NewFile(path, text), nil
}

func (o *simOpener) clone() *simOpener {
	c := &simOpener{files: map[string]string{}, transient: map[string]bool{}}
	for k, v := range o.files {
		c.files[k] = v
	}
	for k, v := range o.transient {
		c.transient[k] = v
	}
	return c
}

// expEnv is one executor with everything its query keys are made of.
type expEnv struct {
	disk      *simOpener
	opener    source.Opener
	session   *ir.Session
	workspace source.Workspace
	exec      *incremental.Executor
	options   fdp.Options
	// active counts the Run calls in flight (for the eviction guard of the
	// scheduler: Executor.dirty is a mutex synctest cannot see through).
	active int
}

func newExpEnv(disk *simOpener, roots []string, par int) *expEnv {
	e := &expEnv{disk: disk, session: new(ir.Session), workspace: source.NewWorkspace(roots...)}
	e.opener = &source.Openers{disk, source.WKTs()}
	e.exec = incremental.New(incremental.WithParallelism(int64(par)))
	e.options.Apply(fdp.IncludeSourceCodeInfo(true))
	return e
}

// expOutcome is what one compilation of the workspace produced.
type expOutcome struct {
	err      error
	panicked any
	fatal    string   // text of the root query's fatal error ("" if none)
	rendered string   // the rendered diagnostics report
	diags    []string // each diagnostic rendered on its own, in report order
	ndiag    int
	fds      string // deterministic bytes of the FileDescriptorSet ("" if fatal)
	returned bool
	report   *report.Report
}

// fdsQuery is queries.FDS with a scheduling point in Key(): Run calls Key() on
// its root queries once more after they have been resolved, when it looks
// their tasks up again to collect the diagnostics, and nothing else in that
// stretch of Run is a scheduling point.
type fdsQuery struct{ queries.FDS }

func (q fdsQuery) Key() any {
	sim.Yield("h.key", "")
	return q.FDS.Key()
}

func (e *expEnv) compile(ctx context.Context) (out expOutcome) {
	defer func() {
		if p := recover(); p != nil {
			out.panicked = p
			out.returned = true
		}
	}()
	e.active++
	defer func() { e.active-- }()
	res, rep, err := incremental.Run(ctx, e.exec, fdsQuery{queries.FDS{
		Opener: e.opener, Session: e.session, Workspace: e.workspace, Options: e.options,
	}})
	out.returned = true
	out.err = err
	if err != nil {
		return out
	}
	if rep != nil {
		out.rendered, _, _ = report.Renderer{}.RenderString(rep)
		out.rendered = ptrRE.ReplaceAllString(out.rendered, "0xPTR")
		out.ndiag = len(rep.Diagnostics)
		for _, d := range rep.Diagnostics {
			one, _, _ := report.Renderer{}.RenderString(&report.Report{Options: rep.Options, Diagnostics: []report.Diagnostic{d}})
			out.diags = append(out.diags, ptrRE.ReplaceAllString(one, "0xPTR"))
		}
		out.report = rep
	}
	if res[0].Fatal != nil {
		out.fatal = res[0].Fatal.Error()
		return out
	}
	b, merr := proto.MarshalOptions{Deterministic: true}.Marshal(res[0].Value)
	if merr != nil {
		out.fds = "marshal error: " + merr.Error()
	} else {
		out.fds = string(b)
	}
	return out
}

// evictWith evicts the paths' File queries and performs edit atomically with
// the eviction (Executor.EvictWithCleanup's cleanup), the documented way to
// change inputs while other goroutines may be compiling.
func (e *expEnv) evictWith(paths []string, edit func()) {
	var keys []any
	for _, p := range paths {
		keys = append(keys, queries.File{Opener: e.opener, Path: p, ReportError: false}.Key())
		keys = append(keys, queries.File{Opener: e.opener, Path: p, ReportError: true}.Key())
	}
	e.exec.EvictWithCleanup(keys, edit)
}

func (e *expEnv) evict(paths []string) {
	var keys []any
	for _, p := range paths {
		keys = append(keys, queries.File{Opener: e.opener, Path: p, ReportError: false}.Key())
		keys = append(keys, queries.File{Opener: e.opener, Path: p, ReportError: true}.Key())
	}
	e.exec.Evict(keys...)
}

// ptrRE masks pointer values that internal-compiler-error diagnostics print.
var ptrRE = regexp.MustCompile(`0x[0-9a-f]{6,}`)

var importRE = regexp.MustCompile(`(?m)^import\s+(?:public\s+|weak\s+)?"([^"]+)"\s*;`)

// textHasImportCycle reports whether the import graph of the given sources
// (read off the import statements) has a cycle reachable from roots.
func textHasImportCycle(files map[string]string, roots []string) bool {
	g := map[string][]string{}
	for p, text := range files {
		g[p] = nil
		for _, m := range importRE.FindAllStringSubmatch(text, -1) {
			g[p] = append(g[p], m[1])
		}
	}
	closure, _ := closureOf(g, roots)
	return hasCycle(g, closure)
}

func sameMultiset(a, b []string) bool {
	if len(a) != len(b) {
		return false
	}
	x := append([]string(nil), a...)
	y := append([]string(nil), b...)
	sort.Strings(x)
	sort.Strings(y)
	for i := range x {
		if x[i] != y[i] {
			return false
		}
	}
	return true
}

func describeFDS(b string) string {
	var set descriptorpb.FileDescriptorSet
	if err := proto.Unmarshal([]byte(b), &set); err != nil {
		return "unparseable"
	}
	var names []string
	for _, f := range set.File {
		names = append(names, f.GetName())
	}
	return fmt.Sprintf("%d bytes, files %v", len(b), names)
}

// diffOutcome compares an incremental outcome with the batch (brand-new
// executor) outcome on the same files.
func diffOutcome(prop string, inc, batch expOutcome) *Verdict {
	switch {
	case inc.panicked != nil:
		return viol(prop+"/run-panicked", "the long-lived executor's Run panicked: %v", inc.panicked)
	case inc.err != nil:
		return viol(prop+"/run-failed", "the long-lived executor's Run returned %v", inc.err)
	case batch.panicked != nil || batch.err != nil:
		return viol(prop+"/batch-run-failed", "the brand-new executor's Run failed: %v %v", batch.err, batch.panicked)
	case (inc.fatal == "") != (batch.fatal == ""):
		return viol(prop+"/fatal-differs", "incremental fatal=%q, batch fatal=%q", inc.fatal, batch.fatal)
	case !sameMultiset(inc.diags, batch.diags):
		return viol(prop+"/diagnostics-differ", "incremental report:\n%s\nbatch report:\n%s", inc.rendered, batch.rendered)
	case inc.rendered != batch.rendered:
		return viol(prop+"/diagnostics-order-differs", "the same diagnostics are reported in a different order; incremental report:\n%s\nbatch report:\n%s", inc.rendered, batch.rendered)
	case inc.fds != batch.fds:
		return viol(prop+"/descriptors-differ", "incremental descriptors (%s) differ from batch (%s)", describeFDS(inc.fds), describeFDS(batch.fds))
	}
	return nil
}

// EditStep is one step of an edit history: new contents per path (nil means
// the file is deleted), transient-error toggles, then evict the named paths.
type EditStep struct {
	Kind      string             `json:"kind"`
	Set       map[string]*string `json:"set,omitempty"`
	Transient map[string]bool    `json:"transient,omitempty"`
	Evict     []string           `json:"evict"`
}

func (st *EditStep) apply(d *simOpener) {
	for p, t := range st.Set {
		if t == nil {
			delete(d.files, p)
		} else {
			d.files[p] = *t
		}
	}
	for p, on := range st.Transient {
		if on {
			d.transient[p] = true
		} else {
			delete(d.transient, p)
		}
	}
}

func sptr(s string) *string { return &s }

// genEditSteps draws an edit history over the workspace.
func genEditSteps(t *rapid.T, wl *CompileWL, n int) []EditStep {
	cur := wl.userSources()
	transient := map[string]bool{}
	deleted := map[string]string{}
	var names []string
	for _, f := range wl.Files {
		names = append(names, f.Name)
	}
	extra := 0
	var steps []EditStep
	for i := 0; i < n; i++ {
		var live []string
		for p := range cur {
			live = append(live, p)
		}
		sort.Strings(live)
		st := EditStep{Set: map[string]*string{}, Transient: map[string]bool{}}
		pick := func() string { return live[rapid.IntRange(0, len(live)-1).Draw(t, "editFile")] }
		kind := rapid.IntRange(0, 9).Draw(t, "editKind")
		if len(live) == 0 {
			kind = 6
		}
		switch kind {
		case 0: // add a type
			p := pick()
			st.Kind = "add-type " + p
			nt := cur[p] + fmt.Sprintf("message Added%d {\n  string s = 1;\n}\n", i)
			if strings.Contains(cur[p], "syntax = \"proto2\"") {
				nt = cur[p] + fmt.Sprintf("message Added%d {\n  optional string s = 1;\n}\n", i)
			}
			st.Set[p] = sptr(nt)
		case 1: // change a field type everywhere in a file
			p := pick()
			st.Kind = "retype " + p
			if strings.Contains(cur[p], "int32 n") {
				st.Set[p] = sptr(strings.Replace(cur[p], "int32 n", "int64 n", 1))
			} else {
				st.Set[p] = sptr(strings.Replace(cur[p], "int64 n", "int32 n", 1))
			}
		case 2: // rename the file's main message (breaks importers that use it)
			p := pick()
			st.Kind = "rename-message " + p
			idx := strings.TrimSuffix(strings.TrimPrefix(p, "f"), ".proto")
			if strings.Contains(cur[p], "message M"+idx+" ") {
				st.Set[p] = sptr(strings.Replace(cur[p], "message M"+idx+" ", "message R"+idx+" ", 1))
			} else {
				st.Set[p] = sptr(strings.Replace(cur[p], "message R"+idx+" ", "message M"+idx+" ", 1))
			}
		case 3: // add an import (possibly unused, possibly cyclic, possibly missing)
			p := pick()
			target := names[rapid.IntRange(0, len(names)-1).Draw(t, "impTarget")]
			st.Kind = fmt.Sprintf("add-import %s -> %s", p, target)
			line := fmt.Sprintf("import %q;\n", target)
			if !strings.Contains(cur[p], line) {
				st.Set[p] = sptr(strings.Replace(cur[p], ";\n", ";\n"+line, 1))
			}
		case 4: // drop the first import line
			p := pick()
			st.Kind = "drop-import " + p
			lines := strings.SplitAfter(cur[p], "\n")
			for k, l := range lines {
				if strings.HasPrefix(l, "import ") {
					lines = append(lines[:k:k], lines[k+1:]...)
					break
				}
			}
			st.Set[p] = sptr(strings.Join(lines, ""))
		case 5: // break or repair syntax
			p := pick()
			if strings.HasSuffix(cur[p], "message {\n") {
				st.Kind = "repair-syntax " + p
				st.Set[p] = sptr(strings.TrimSuffix(cur[p], "message {\n"))
			} else {
				st.Kind = "break-syntax " + p
				st.Set[p] = sptr(cur[p] + "message {\n")
			}
		case 6: // add a file (a new one, or a deleted one comes back)
			if len(deleted) > 0 && rapid.IntRange(0, 1).Draw(t, "readd") == 0 {
				var ds []string
				for p := range deleted {
					ds = append(ds, p)
				}
				sort.Strings(ds)
				p := ds[rapid.IntRange(0, len(ds)-1).Draw(t, "readdFile")]
				st.Kind = "re-add " + p
				st.Set[p] = sptr(deleted[p])
				delete(deleted, p)
			} else {
				extra++
				p := fmt.Sprintf("x%d.proto", extra)
				names = append(names, p)
				st.Kind = "add-file " + p
				st.Set[p] = sptr(fmt.Sprintf("syntax = \"proto3\";\npackage x%d;\nmessage X%d {\n  int32 n = 1;\n}\n", extra, extra))
			}
		case 7: // delete a file
			p := pick()
			st.Kind = "delete " + p
			deleted[p] = cur[p]
			st.Set[p] = nil
		case 8: // toggle a transient open error
			p := names[rapid.IntRange(0, len(names)-1).Draw(t, "transientFile")]
			on := !transient[p]
			st.Kind = fmt.Sprintf("transient-error %s=%v", p, on)
			st.Transient[p] = on
			transient[p] = on
		default: // touch: rewrite a file with identical contents
			p := pick()
			st.Kind = "touch " + p
			st.Set[p] = sptr(cur[p])
		}
		changed := map[string]bool{}
		for p, v := range st.Set {
			changed[p] = true
			if v == nil {
				delete(cur, p)
			} else {
				cur[p] = *v
			}
		}
		for p := range st.Transient {
			changed[p] = true
		}
		for p := range changed {
			st.Evict = append(st.Evict, p)
		}
		sort.Strings(st.Evict)
		steps = append(steps, st)
	}
	return steps
}

// addHubClash appends a "hub" shape to the workload and returns the workspace
// roots to use with it: a base file with an extendable message, two to three
// files that extend it (their extension numbers drawn from a pool of two, so
// that clashes between files that are only imported are common), and a hub
// file that imports the extenders directly. With only the hub in the
// workspace the extenders are import-only files.
func addHubClash(t *rapid.T, wl *CompileWL) []string {
	wl.Files = append(wl.Files, PFile{Name: "xb.proto", Text: "syntax = \"proto2\";\npackage xb;\nmessage B {\n  optional int32 n = 1;\n  extensions 100 to 199;\n}\n"})
	n := rapid.IntRange(2, 3).Draw(t, "hubExtenders")
	var hubImports []string
	hub := "syntax = \"proto2\";\npackage hub;\n"
	for i := 0; i < n; i++ {
		name := fmt.Sprintf("xe%d.proto", i)
		tag := 100 + rapid.IntRange(0, 1).Draw(t, "hubTag")
		wl.Files = append(wl.Files, PFile{Name: name, Imports: []string{"xb.proto"},
			Text: fmt.Sprintf("syntax = \"proto2\";\npackage xe%d;\nimport \"xb.proto\";\nmessage E%d {\n  optional int32 n = 1;\n}\nextend xb.B {\n  optional int32 e%d = %d;\n}\n", i, i, i, tag)})
		hubImports = append(hubImports, name)
		hub += fmt.Sprintf("import %q;\n", name)
	}
	hub += "message Hub {\n"
	for i := 0; i < n; i++ {
		hub += fmt.Sprintf("  optional xe%d.E%d f%d = %d;\n", i, i, i, i+1)
	}
	hub += "}\n"
	wl.Files = append(wl.Files, PFile{Name: "hub.proto", Text: hub, Imports: hubImports})
	wl.Defects = append(wl.Defects, "hub shape: extension numbers of import-only files may clash")
	roots := []string{"hub.proto"}
	for _, f := range wl.Files {
		if f.Name != "hub.proto" && rapid.IntRange(0, 5).Draw(t, "hubAlso") == 0 {
			roots = append(roots, f.Name)
		}
	}
	return roots
}
