//go:build verif

package props

import (
	"fmt"
	"io/fs"
	"sort"
	"strings"
	"sync"

	"pgregory.net/rapid"

	"github.com/bufbuild/protocompile/wellknownimports"

	"verifharness/sim"
)

// PFile is one generated proto source file. Imports is what the text says; it
// is kept separately so that graph models need not parse the text.
type PFile struct {
	Name    string   `json:"name"`
	Text    string   `json:"text"`
	Imports []string `json:"imports,omitempty"`
}

// CompileWL is a generated multi-file workload for the stable compiler.
type CompileWL struct {
	Files   []PFile  `json:"files"`
	Defects []string `json:"defects,omitempty"` // what was deliberately broken, for the reader
	// DescriptorOverride makes the resolver supply its own source for
	// google/protobuf/descriptor.proto ("valid": the real text; "broken": the
	// real text plus a syntax error). Every file then implicitly depends on it.
	DescriptorOverride string `json:"descriptor_override,omitempty"`
}

var (
	descriptorProtoOnce sync.Once
	descriptorProtoText string
)

func descriptorProtoSource() string {
	descriptorProtoOnce.Do(func() {
		b, err := fs.ReadFile(wellknownimports.FS(), "google/protobuf/descriptor.proto")
		if err != nil {
			panic(err)
		}
		descriptorProtoText = string(b)
	})
	return descriptorProtoText
}

// dropOverride removes the descriptor.proto override together with the uses
// of the option that only the custom override declares.
func (w *CompileWL) dropOverride() {
	w.DescriptorOverride = ""
	for i := range w.Files {
		lines := strings.SplitAfter(w.Files[i].Text, "\n")
		out := lines[:0]
		for _, l := range lines {
			if !strings.HasPrefix(l, "option team = ") {
				out = append(out, l)
			}
		}
		w.Files[i].Text = strings.Join(out, "")
	}
}

func (w *CompileWL) names() []string {
	out := make([]string, len(w.Files))
	for i, f := range w.Files {
		out[i] = f.Name
	}
	return out
}

func (w *CompileWL) sources() map[string]string {
	m := map[string]string{}
	for _, f := range w.Files {
		m[f.Name] = f.Text
	}
	switch w.DescriptorOverride {
	case "valid":
		m["google/protobuf/descriptor.proto"] = descriptorProtoSource()
	case "broken":
		m["google/protobuf/descriptor.proto"] = descriptorProtoSource() + "\nmessage {\n"
	case "custom":
		m["google/protobuf/descriptor.proto"] = customDescriptorProtoSource()
	}
	return m
}

// customDescriptorProtoSource is descriptor.proto with one more file option,
// which files of the workload then use without importing descriptor.proto: they
// compile only if the resolver's descriptor.proto is really the one in force.
func customDescriptorProtoSource() string {
	src := descriptorProtoSource()
	const anchor = "message FileOptions {"
	i := strings.Index(src, anchor)
	if i < 0 {
		panic(sim.HarnessFault{Msg: "descriptor.proto has no FileOptions message"})
	}
	return src[:i+len(anchor)] + "\n  optional string team = 777;\n" + src[i+len(anchor):]
}

// userSources is sources() without the descriptor.proto override (the
// experimental compiler gets descriptor.proto from source.WKTs()).
func (w *CompileWL) userSources() map[string]string {
	m := map[string]string{}
	for _, f := range w.Files {
		m[f.Name] = f.Text
	}
	return m
}

func (w *CompileWL) graph() map[string][]string {
	m := map[string][]string{}
	for _, f := range w.Files {
		m[f.Name] = f.Imports
	}
	return m
}

type fileSpec struct {
	name    string
	pkg     string
	syntax  string // proto2 | proto3 | editions
	imports []int
	public  map[int]bool
	rawImps []string // extra imports by name (missing files, cycles, opts)
	body    []string
	useOpts bool
	useLim  bool
	wkt     []int // indexes into wktPool: well-known files imported (resolved as ready-made descriptors)
}

var wktPool = []struct{ path, typ string }{
	{"google/protobuf/timestamp.proto", ".google.protobuf.Timestamp"},
	{"google/protobuf/duration.proto", ".google.protobuf.Duration"},
	{"google/protobuf/any.proto", ".google.protobuf.Any"},
}

var numericOptionLines = []string{
	"  option (o.ratio) = -2;", "  option (o.ratio) = 1.5;", "  option (o.dval) = -7;", "  option (o.sval) = -4;", "  option (o.ratio) = inf;", "  option (o.dval) = 3;",
	"  option (o.uval) = 3000000000;", "  option (o.fval) = 4294967295;", "  option (o.u64) = 18446744073709551615;", "  option (o.i64) = -9223372036854775808;", "  option (o.sval) = -2147483648;",
}

var defaultFieldLines = []string{
	"  optional float fl = %d [default = -3];", "  optional double db = %d [default = 2];", "  optional sint64 si = %d [default = -9];", "  optional float fn = %d [default = -inf];",
	"  optional uint32 ud = %d [default = 4000000000];", "  optional fixed32 fd = %d [default = 2147483648];", "  optional uint64 ul = %d [default = 18446744073709551615];", "  optional sfixed32 sf = %d [default = -2147483648];",
}

var pkgPool = []string{"", "p", "p.q", "r", "p.q.s"}

func fq(pkg, name string) string {
	if pkg == "" {
		return "." + name
	}
	return "." + pkg + "." + name
}

// genCompileWL draws a workload: an import DAG of 2..maxFiles files with
// messages, enums, extension ranges, extends, custom options, and (when
// defects is true) at most two injected defects.
func genCompileWL(t *rapid.T, maxFiles int, defects bool) CompileWL {
	var kinds []int
	if defects {
		kinds = []int{0, 1, 2, 3, 4, 5, 6, 7}
	}
	return genCompileWLKinds(t, maxFiles, kinds)
}

// genCompileWLKinds is genCompileWL restricted to the given defect kinds
// (0 syntax, 1 unresolvable type, 2 duplicate symbol, 3 duplicate extension
// number, 4 missing import, 5 import cycle, 6 message vs package name, 7 enum
// value vs message or vs another enum's value across files).
func genCompileWLKinds(t *rapid.T, maxFiles int, kinds []int) CompileWL {
	defects := len(kinds) > 0
	n := rapid.IntRange(2, maxFiles).Draw(t, "nfiles")
	withOpts := rapid.IntRange(0, 3).Draw(t, "opts") == 0
	specs := make([]*fileSpec, n)
	for i := range specs {
		s := &fileSpec{name: fmt.Sprintf("f%d.proto", i), public: map[int]bool{}}
		s.pkg = pkgPool[rapid.IntRange(0, len(pkgPool)-1).Draw(t, "pkg")]
		switch rapid.IntRange(0, 5).Draw(t, "syntax") {
		case 0:
			s.syntax = "proto3"
		case 1:
			s.syntax = "editions"
		default:
			s.syntax = "proto2"
		}
		for j := 0; j < i; j++ {
			if rapid.IntRange(0, 9).Draw(t, "imp") < 4 {
				s.imports = append(s.imports, j)
				if rapid.IntRange(0, 3).Draw(t, "pub") == 0 {
					s.public[j] = true
				}
			}
		}
		if rapid.IntRange(0, 2).Draw(t, "wkt") == 0 {
			for k := range wktPool {
				if rapid.IntRange(0, 1).Draw(t, "wktImp") == 0 {
					s.wkt = append(s.wkt, k)
				}
			}
		}
		specs[i] = s
	}
	// Defects are decided before the bodies are rendered, because some of them
	// change a file's package (references are rendered fully qualified).
	type defect struct{ kind, k, o, hi int }
	var plan []defect
	if defects {
		nd := rapid.IntRange(0, 2).Draw(t, "ndefects")
		for d := 0; d < nd; d++ {
			df := defect{k: rapid.IntRange(0, n-1).Draw(t, "defectFile")}
			df.kind = kinds[rapid.IntRange(0, len(kinds)-1).Draw(t, "defectKind")]
			df.o = rapid.IntRange(0, n-1).Draw(t, "dupOther")
			if df.o == df.k {
				df.o = (df.k + 1) % n
			}
			df.hi = rapid.IntRange(df.k, n-1).Draw(t, "cycleTo")
			switch df.kind {
			case 2, 7:
				specs[df.o].pkg = specs[df.k].pkg
			case 3:
				if df.k == 0 || df.o == 0 || specs[0].syntax == "proto3" || specs[df.k].syntax == "proto3" || specs[df.o].syntax == "proto3" {
					continue // not expressible here; no defect
				}
				for _, x := range []int{df.k, df.o} {
					has := false
					for _, j := range specs[x].imports {
						if j == 0 {
							has = true
						}
					}
					if !has {
						specs[x].imports = append([]int{0}, specs[x].imports...)
					}
				}
			case 6:
				specs[df.k].pkg = "p"
				specs[(df.k+1)%n].pkg = "p.q"
			}
			plan = append(plan, df)
		}
	}
	// visibility: direct imports plus whatever they re-export publicly
	var exported func(i int, seen map[int]bool)
	exported = func(i int, seen map[int]bool) {
		if seen[i] {
			return
		}
		seen[i] = true
		for _, j := range specs[i].imports {
			if specs[i].public[j] {
				exported(j, seen)
			}
		}
	}
	visible := func(i int) []int {
		seen := map[int]bool{}
		for _, j := range specs[i].imports {
			exported(j, seen)
		}
		out := make([]int, 0, len(seen))
		for j := range seen {
			out = append(out, j)
		}
		sort.Ints(out)
		return out
	}
	for i, s := range specs {
		vis := visible(i)
		var msg []string
		fieldNo := 1
		label := "optional "
		if s.syntax != "proto2" {
			label = ""
		}
		for _, j := range vis {
			if rapid.IntRange(0, 2).Draw(t, "useType") > 0 {
				msg = append(msg, fmt.Sprintf("  %s%s a%d = %d;", label, fq(specs[j].pkg, fmt.Sprintf("M%d", j)), j, fieldNo))
				fieldNo++
			}
		}
		for _, k := range s.wkt {
			msg = append(msg, fmt.Sprintf("  %s%s w%d = %d;", label, wktPool[k].typ, k, fieldNo))
			fieldNo++
		}
		msg = append(msg, fmt.Sprintf("  %sint32 n = %d;", label, fieldNo))
		if s.syntax != "proto3" {
			msg = append(msg, "  extensions 100 to 199;")
		}
		if withOpts && i > 0 && rapid.IntRange(0, 1).Draw(t, "useOpt") == 0 {
			s.useOpts = true
			msg = append(msg, fmt.Sprintf("  option (o.tag) = \"m%d\";", i))
			// numeric option values in several literal forms (the descriptor-proto
			// input form re-reads them from uninterpreted options)
			if k := rapid.IntRange(0, len(numericOptionLines)+1).Draw(t, "numOpt"); k < len(numericOptionLines) {
				msg = append(msg, numericOptionLines[k])
			}
			if s.syntax != "proto3" && rapid.IntRange(0, 2).Draw(t, "rangeOpt") == 0 {
				// one extensions statement with several ranges sharing one option
				// list (a standard option before a custom one, or the other way round)
				if rapid.IntRange(0, 1).Draw(t, "rangeOptOrder") == 0 {
					msg = append(msg, fmt.Sprintf("  extensions 200 to 209, 300 to 309, 400 [verification = UNVERIFIED, (o.xlabel) = \"r%d\"];", i))
				} else {
					msg = append(msg, fmt.Sprintf("  extensions 200 to 209, 300 to 309 [(o.xlabel) = \"r%d\", verification = UNVERIFIED];", i))
				}
			}
			if rapid.IntRange(0, 2).Draw(t, "oneofOpt") == 0 {
				msg = append(msg, fmt.Sprintf("  oneof choice {\n    option (o.otag) = \"one%d\";\n    int32 c1 = %d;\n    string c2 = %d;\n  }", i, fieldNo+40, fieldNo+41))
			}
			if strings.HasPrefix(s.pkg, "p.") && rapid.IntRange(0, 1).Draw(t, "litExt") == 0 {
				// an extension named relative to an ancestor package inside a message literal
				s.useLim = true
				msg = append(msg, "  option (o.cfg) = { v: 1 [lim.burst]: 3 };")
			} else if k := rapid.IntRange(0, 5).Draw(t, "anyLit"); k < 2 {
				// an expanded Any inside a message literal, under either of the two
				// type-URL hosts the compiler knows
				host := []string{"type.googleapis.com", "type.googleprod.com"}[k]
				msg = append(msg, fmt.Sprintf("  option (o.cfg) = { v: 2 detail: { [%s/o.Cfg] { v: %d } } };", host, i))
			}
		}
		if s.syntax == "proto2" {
			if k := rapid.IntRange(0, len(defaultFieldLines)+4).Draw(t, "defaults"); k < len(defaultFieldLines) {
				msg = append(msg, fmt.Sprintf(defaultFieldLines[k], fieldNo+20))
			}
		}
		s.body = append(s.body, fmt.Sprintf("message M%d {\n%s\n}", i, strings.Join(msg, "\n")))
		if rapid.IntRange(0, 1).Draw(t, "enum") == 0 {
			s.body = append(s.body, fmt.Sprintf("enum E%d {\n  E%d_ZERO = 0;\n  E%d_ONE = 1;\n}", i, i, i))
		}
		for _, j := range vis {
			if specs[j].syntax != "proto3" && s.syntax != "proto3" && rapid.IntRange(0, 3).Draw(t, "ext") == 0 {
				s.body = append(s.body, fmt.Sprintf("extend %s {\n  %sint32 x%d_%d = %d;\n}", fq(specs[j].pkg, fmt.Sprintf("M%d", j)), label, i, j, 100+i))
			}
		}
	}
	wl := CompileWL{}
	extra := map[string]PFile{}
	for _, df := range plan {
		k, o := df.k, df.o
		s := specs[k]
		switch df.kind {
		case 0:
			s.body = append(s.body, "message {")
			wl.Defects = append(wl.Defects, "syntax error in "+s.name)
		case 1:
			lbl := "optional "
			if s.syntax != "proto2" {
				lbl = ""
			}
			s.body = append(s.body, fmt.Sprintf("message U%d {\n  %s.zz.Nope u = 1;\n}", k, lbl))
			wl.Defects = append(wl.Defects, "unresolvable type in "+s.name)
		case 2:
			s.body = append(s.body, "message Dup {\n}")
			specs[o].body = append(specs[o].body, "message Dup {\n}")
			wl.Defects = append(wl.Defects, fmt.Sprintf("symbol Dup defined in %s and %s", s.name, specs[o].name))
		case 3:
			for _, x := range []int{k, o} {
				sp := specs[x]
				lbl := "optional "
				if sp.syntax != "proto2" {
					lbl = ""
				}
				sp.body = append(sp.body, fmt.Sprintf("extend %s {\n  %sint32 dupx%d = 150;\n}", fq(specs[0].pkg, "M0"), lbl, x))
			}
			wl.Defects = append(wl.Defects, fmt.Sprintf("extension tag 150 of M0 used in %s and %s", s.name, specs[o].name))
		case 4:
			s.rawImps = append(s.rawImps, fmt.Sprintf("missing%d.proto", k))
			wl.Defects = append(wl.Defects, "missing import in "+s.name)
		case 5:
			hi := df.hi
			s.rawImps = append(s.rawImps, specs[hi].name)
			if hi != k {
				has := false
				for _, j := range specs[hi].imports {
					if j == k {
						has = true
					}
				}
				if !has {
					specs[hi].imports = append(specs[hi].imports, k)
				}
			}
			wl.Defects = append(wl.Defects, fmt.Sprintf("import cycle %s <-> %s", s.name, specs[hi].name))
		case 7:
			// enum values live in the scope that encloses the enum
			s.body = append(s.body, fmt.Sprintf("enum DupHolder%d {\n  DUPV = 0;\n}", k))
			if df.hi%2 == 0 {
				specs[o].body = append(specs[o].body, "message DUPV {\n}")
			} else {
				specs[o].body = append(specs[o].body, fmt.Sprintf("enum DupHolder%d {\n  DUPV = 0;\n}", o))
			}
			wl.Defects = append(wl.Defects, fmt.Sprintf("enum value DUPV of %s collides with a symbol of %s", s.name, specs[o].name))
		case 6:
			s.body = append(s.body, "message q {\n}")
			wl.Defects = append(wl.Defects, fmt.Sprintf("message p.q in %s vs package p.q in %s", s.name, specs[(k+1)%n].name))
		}
	}
	if withOpts {
		extra["opts.proto"] = PFile{
			Name:    "opts.proto",
			Imports: []string{"google/protobuf/descriptor.proto", "google/protobuf/any.proto"},
			Text: "syntax = \"proto2\";\npackage o;\nimport \"google/protobuf/descriptor.proto\";\nimport \"google/protobuf/any.proto\";\n" +
				"extend google.protobuf.MessageOptions {\n  optional string tag = 50001;\n  optional float ratio = 50003;\n  optional double dval = 50004;\n  optional sint32 sval = 50005;\n  optional uint32 uval = 50006;\n  optional fixed32 fval = 50007;\n  optional uint64 u64 = 50008;\n  optional int64 i64 = 50009;\n}\n" +
				"extend google.protobuf.FileOptions {\n  optional int32 ftag = 50002;\n}\n" +
				"extend google.protobuf.OneofOptions {\n  optional string otag = 50010;\n}\n" +
				"extend google.protobuf.ExtensionRangeOptions {\n  optional string xlabel = 50030;\n}\n" +
				"message Cfg {\n  optional int32 v = 1;\n  optional google.protobuf.Any detail = 3;\n  extensions 100 to 199;\n}\n" +
				"extend google.protobuf.MessageOptions {\n  optional Cfg cfg = 50020;\n}\n",
		}
	}
	if withOpts {
		extra["lim.proto"] = PFile{
			Name:    "lim.proto",
			Imports: []string{"opts.proto"},
			Text:    "syntax = \"proto2\";\npackage p.lim;\nimport \"opts.proto\";\nextend o.Cfg {\n  optional int32 burst = 101;\n}\n",
		}
	}
	for _, s := range specs {
		var b strings.Builder
		switch s.syntax {
		case "editions":
			b.WriteString("edition = \"2023\";\n")
		default:
			fmt.Fprintf(&b, "syntax = %q;\n", s.syntax)
		}
		if s.pkg != "" {
			fmt.Fprintf(&b, "package %s;\n", s.pkg)
		}
		var imps []string
		for _, j := range s.imports {
			if s.public[j] {
				fmt.Fprintf(&b, "import public %q;\n", specs[j].name)
			} else {
				fmt.Fprintf(&b, "import %q;\n", specs[j].name)
			}
			imps = append(imps, specs[j].name)
		}
		for _, r := range s.rawImps {
			dup := false
			for _, x := range imps {
				if x == r {
					dup = true
				}
			}
			if dup {
				continue
			}
			fmt.Fprintf(&b, "import %q;\n", r)
			imps = append(imps, r)
		}
		if s.useOpts {
			b.WriteString("import \"opts.proto\";\n")
			imps = append(imps, "opts.proto")
		}
		if s.useLim {
			b.WriteString("import \"lim.proto\";\n")
			imps = append(imps, "lim.proto")
		}
		for _, k := range s.wkt {
			fmt.Fprintf(&b, "import %q;\n", wktPool[k].path)
			imps = append(imps, wktPool[k].path)
		}
		for _, part := range s.body {
			b.WriteString(part)
			b.WriteString("\n")
		}
		wl.Files = append(wl.Files, PFile{Name: s.name, Text: b.String(), Imports: imps})
	}
	if f, ok := extra["opts.proto"]; ok {
		wl.Files = append(wl.Files, f)
	}
	if f, ok := extra["lim.proto"]; ok {
		wl.Files = append(wl.Files, f)
	}
	switch rapid.IntRange(0, 11).Draw(t, "descriptorOverride") {
	case 3, 4:
		wl.DescriptorOverride = "custom"
		used := false
		for i := range wl.Files {
			f := &wl.Files[i]
			if strings.HasPrefix(f.Name, "f") && (rapid.IntRange(0, 1).Draw(t, "useTeam") == 0 || (!used && i == len(specs)-1)) {
				f.Text += fmt.Sprintf("option team = \"t%d\";\n", i)
				used = true
			}
		}
	case 0, 1:
		wl.DescriptorOverride = "valid"
	case 2:
		if defects {
			wl.DescriptorOverride = "broken"
			wl.Defects = append(wl.Defects, "the resolver's own descriptor.proto has a syntax error")
		}
	}
	return wl
}

// genImportGraphWL draws an arbitrary import digraph (self-loops, cycles,
// diamonds, edges to missing files) over files that contain nothing but their
// imports and one empty message, so that nothing except the graph can fail.
func genImportGraphWL(t *rapid.T, maxFiles int) CompileWL {
	n := rapid.IntRange(1, maxFiles).Draw(t, "nfiles")
	density := rapid.IntRange(1, 5).Draw(t, "density")
	wl := CompileWL{}
	for i := 0; i < n; i++ {
		var imps []string
		for j := 0; j < n; j++ {
			if rapid.IntRange(0, 9).Draw(t, "edge") < density {
				imps = append(imps, fmt.Sprintf("g%d.proto", j))
			}
		}
		if rapid.IntRange(0, 11).Draw(t, "missing") == 0 {
			imps = append(imps, fmt.Sprintf("missing%d.proto", i))
		}
		var b strings.Builder
		b.WriteString("syntax = \"proto3\";\n")
		for _, im := range imps {
			fmt.Fprintf(&b, "import %q;\n", im)
		}
		fmt.Fprintf(&b, "message G%d {\n}\n", i)
		wl.Files = append(wl.Files, PFile{Name: fmt.Sprintf("g%d.proto", i), Text: b.String(), Imports: imps})
	}
	return wl
}

// genTape draws a scheduler tape. A per-run stickiness makes most entries 0
// ("keep running the same goroutine"), so that runs differ in how many
// context switches they contain; shrinking drives entries toward 0.
func genTape(t *rapid.T, maxLen int) []uint16 {
	sticky := []int{0, 50, 80, 95}[rapid.IntRange(0, 3).Draw(t, "sticky")]
	n := rapid.IntRange(0, maxLen).Draw(t, "tapeLen")
	tape := make([]uint16, n)
	for i := range tape {
		if sticky > 0 && rapid.IntRange(0, 99).Draw(t, "stick") < sticky {
			continue
		}
		tape[i] = uint16(rapid.IntRange(0, 7).Draw(t, "pick"))
	}
	return tape
}

// genTail draws, for three runs in four, the pseudo-random continuation of
// the tape (stickiness 50/80/95/99 %).
func genTail(t *rapid.T) *sim.Tail {
	if rapid.IntRange(0, 3).Draw(t, "tail") == 0 {
		return nil
	}
	return &sim.Tail{Seed: uint32(rapid.IntRange(0, 1<<20).Draw(t, "tailSeed")), Sticky: []int{50, 80, 95, 99}[rapid.IntRange(0, 3).Draw(t, "tailSticky")]}
}

// genPCT draws, for one run in four, a priority schedule with 1-3 priority
// change points instead of a tape-driven one.
func genPCT(t *rapid.T, horizon int) *sim.PCT {
	if rapid.IntRange(0, 3).Draw(t, "pct") != 0 {
		return nil
	}
	p := &sim.PCT{Seed: uint32(rapid.IntRange(1, 1<<30).Draw(t, "pctSeed"))}
	n := rapid.IntRange(1, 3).Draw(t, "pctDepth")
	for i := 0; i < n; i++ {
		p.ChangeAt = append(p.ChangeAt, rapid.IntRange(0, horizon).Draw(t, "pctChange"))
	}
	return p
}

// genDisabled draws the subset of optional hook points that are switched off
// for a run (swarm style).
func genDisabled(t *rapid.T, optional []string) []string {
	mode := rapid.IntRange(0, 3).Draw(t, "hookMode")
	var out []string
	switch mode {
	case 0: // all on
	case 1: // all off
		out = append(out, optional...)
	default:
		for _, p := range optional {
			if rapid.IntRange(0, 1).Draw(t, "off") == 0 {
				out = append(out, p)
			}
		}
	}
	return out
}

func setOf(xs []string) map[string]bool {
	m := map[string]bool{}
	for _, x := range xs {
		m[x] = true
	}
	return m
}
