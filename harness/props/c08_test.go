//go:build verif

package props

import (
	"context"
	"errors"
	"fmt"
	"strings"
	"testing"

	"pgregory.net/rapid"

	"github.com/bufbuild/protocompile"
	"github.com/bufbuild/protocompile/linker"
	"github.com/bufbuild/protocompile/reporter"

	"verifharness/sim"
)

// C08 (engine B part): the reporter contract of a whole compilation.
type C08Case struct {
	WL      CompileWL  `json:"workload"`
	Run     CompileRun `json:"run"`
	AbortAt int        `json:"abort_at"` // the reporter returns an error from its k-th Error call (0 = never)
	Sched   Sched      `json:"sched"`
}

// genErrorWL produces a workload whose files carry several independent
// reportable errors (and unused imports, which are warnings).
func genErrorWL(t *rapid.T) CompileWL {
	wl := genCompileWL(t, 5, rapid.IntRange(0, 1).Draw(t, "defects") == 0)
	warnOnly := rapid.IntRange(0, 3).Draw(t, "warnOnly") == 0
	for i := range wl.Files {
		f := &wl.Files[i]
		if f.Name == "opts.proto" {
			continue
		}
		if !warnOnly {
			n := rapid.IntRange(0, 3).Draw(t, "nerr")
			for k := 0; k < n; k++ {
				switch rapid.IntRange(0, 2).Draw(t, "errKind") {
				case 0:
					f.Text += fmt.Sprintf("message X%d_%d {\n  optional .zz.Nope%d u = 1;\n}\n", i, k, k)
				case 1:
					f.Text += fmt.Sprintf("message Y%d_%d {\n  optional int32 a = 1;\n  optional int32 b = 1;\n}\n", i, k)
				default:
					f.Text += fmt.Sprintf("enum Z%d_%d {\n  Z%d_%d_A = 1;\n}\nmessage W%d_%d {\n  optional Z%d_%d z = 1 [default = NOPE];\n}\n", i, k, i, k, i, k, i, k)
				}
			}
			if n > 0 {
				wl.Defects = append(wl.Defects, fmt.Sprintf("%d reportable errors appended to %s", n, f.Name))
			}
		}
	}
	// an extra file that nobody uses, imported by the last file: unused import warning
	if rapid.IntRange(0, 1).Draw(t, "unused") == 0 {
		wl.Files = append(wl.Files, PFile{Name: "unused.proto", Text: "syntax = \"proto3\";\npackage unused;\nmessage Unused {\n}\n"})
		last := &wl.Files[0]
		last.Text = strings.Replace(last.Text, ";\n", ";\nimport \"unused.proto\";\n", 1)
		if !strings.Contains(last.Text, "package") {
			// first statement is syntax/edition; the import was placed right after it
		}
		last.Imports = append(last.Imports, "unused.proto")
		wl.Defects = append(wl.Defects, "unused import in "+last.Name)
	}
	return wl
}

func genC08(t *rapid.T) C08Case {
	wl := genErrorWL(t)
	c := C08Case{WL: wl}
	c.Run = CompileRun{
		Par:     []int{1, 2, 4}[rapid.IntRange(0, 2).Draw(t, "par")],
		Request: genPermutation(t, genRequest(t, wl.names()), false),
		Symbols: rapid.IntRange(0, 3).Draw(t, "symbols") == 0,
	}
	c.AbortAt = rapid.IntRange(0, 8).Draw(t, "abortAt")
	c.Sched = genSched(t, &wl, compileOptional, 300)
	return c
}

type abortErr struct{ k int }

func (e *abortErr) Error() string { return fmt.Sprintf("reporter aborted at error %d", e.k) }

func execC08(t *testing.T, c C08Case) *Verdict {
	var (
		nErr, nWarn   int
		aborted       *abortErr
		errAfterAbort int
		nilArg        bool
		res           compileResult
		errCallsAtRet int
	)
	rep := reporter.NewReporter(func(e reporter.ErrorWithPos) error {
		if e == nil {
			nilArg = true
		}
		if aborted != nil {
			errAfterAbort++
			return aborted
		}
		nErr++
		if c.AbortAt > 0 && nErr == c.AbortAt {
			aborted = &abortErr{nErr}
			sim.S().Fault("reporter-abort")
			return aborted
		}
		return nil
	}, func(e reporter.ErrorWithPos) {
		if e == nil {
			nilArg = true
		}
		nWarn++
	})
	client := sim.Client{Name: "c0", Fn: func() {
		comp := &protocompile.Compiler{
			Resolver:       mapResolver(c.WL.sources()),
			MaxParallelism: c.Run.Par,
			Reporter:       rep,
		}
		if c.Run.Symbols {
			comp.Symbols = &linker.Symbols{}
		}
		res = doCompile(context.Background(), comp, c.Run.Request)
		errCallsAtRet = nErr
	}}
	out := sim.RunBubble(t, bubbleCfg(&c.Sched, stepBudget(&c.WL)), []sim.Client{client}, nil)
	st := sim.S()
	st.Sample(c, 3)
	st.Case(fmt.Sprintf("%v|%v|%d|%d", c.WL.Files, c.Run, c.AbortAt, out.TraceHash), nErr > 0)
	if v := hangVerdict("C08", out); v != nil {
		return v
	}
	if !res.returned {
		return viol("C08/deadlock", "Compile did not return").with(out)
	}
	if res.panicked != nil {
		return viol("C08/compile-panicked-on-caller", "Compile panicked: %v", res.panicked).with(out)
	}
	if nilArg {
		return viol("C08/nil-error-reported", "the reporter was called with a nil error").with(out)
	}
	if errAfterAbort > 0 {
		return viol("C08/error-after-abort", "the reporter returned an error from its call #%d but %d further error(s) reached it", c.AbortAt, errAfterAbort).with(out)
	}
	switch {
	case aborted != nil && errCallsAtRet >= c.AbortAt:
		st.Probe("policy:aborted")
		if res.err == nil {
			return viol("C08/abort-ignored", "the reporter aborted at error %d but Compile succeeded", c.AbortAt).with(out)
		}
		if !errors.Is(res.err, error(aborted)) {
			return viol("C08/abort-error-not-returned", "the reporter aborted with %q but Compile returned %q (%T)", aborted.Error(), res.err.Error(), res.err).with(out)
		}
	case errCallsAtRet > 0:
		st.Probe("policy:accepted-all")
		if res.err == nil {
			return viol("C08/success-despite-reported-errors", "%d error(s) were reported and accepted but Compile succeeded", errCallsAtRet).with(out)
		}
		if !errors.Is(res.err, reporter.ErrInvalidSource) {
			return viol("C08/not-invalid-source", "%d error(s) were reported and all accepted, but Compile returned %q (%T) instead of ErrInvalidSource", errCallsAtRet, res.err.Error(), res.err).with(out)
		}
	default:
		// nothing reported (before return)
		if res.err == nil {
			if nWarn > 0 {
				st.Probe("outcome:success-with-warnings")
			} else {
				st.Probe("outcome:success")
			}
		} else {
			st.Probe("outcome:unreported-failure")
		}
	}
	if res.err == nil && nErr > 0 {
		return viol("C08/success-despite-reported-errors", "Compile succeeded but %d error(s) were reported in total", nErr).with(out)
	}
	return nil
}

func TestC08(t *testing.T) { runProp(t, "C08", genC08, execC08) }
