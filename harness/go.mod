module verifharness

go 1.25.6

require (
	github.com/anishathalye/porcupine v1.3.0
	github.com/bufbuild/protocompile v0.0.0
	github.com/petermattis/goid v0.0.0-20260113132338-7c7de50cc741
	golang.org/x/sync v0.20.0
	google.golang.org/protobuf v1.36.11
	pgregory.net/rapid v1.3.0
)

replace github.com/bufbuild/protocompile => /repo
