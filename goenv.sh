# Source this file: offline Go environment for the /verif harness.
# The repository needs go1.25.6, which is only present in the module cache;
# it is invoked by path. go1.26.8 (pre-installed) is the fallback.
_gt=/root/go/pkg/mod/golang.org/toolchain@v0.0.1-go1.25.6.linux-amd64
if [ -x "$_gt/bin/go" ]; then
  export GOROOT="$_gt"
  export PATH="$_gt/bin:$PATH"
elif [ -x /opt/veriftools/go1.26.8/bin/go ]; then
  export GOROOT=/opt/veriftools/go1.26.8
  export PATH="/opt/veriftools/go1.26.8/bin:$PATH"
fi
unset _gt
export GOTOOLCHAIN=local GOPROXY=off GOSUMDB=off GOFLAGS=-mod=mod GOWORK=off
export CGO_ENABLED=1
