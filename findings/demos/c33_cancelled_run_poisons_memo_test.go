package incremental_test

import (
	"context"
	"sync"
	"testing"

	"github.com/bufbuild/protocompile/experimental/incremental"
)

type leafQ struct {
	once    sync.Once
	started chan struct{}
	release chan struct{}
}

func (q *leafQ) Key() any { return "leaf" }
func (q *leafQ) Execute(t *incremental.Task) (int, error) {
	if q.started != nil {
		q.once.Do(func() { close(q.started) })
		<-q.release
	}
	return 7, nil
}

type midQ struct{ leaf, other incremental.Query[int] }

func (q *midQ) Key() any { return "mid" }
func (q *midQ) Execute(t *incremental.Task) (int, error) {
	rs, err := incremental.Resolve(t, q.other, q.leaf)
	if err != nil {
		return 0, err
	}
	for _, r := range rs {
		if r.Fatal != nil {
			return 0, r.Fatal
		}
	}
	return rs[0].Value + rs[1].Value, nil
}

type rootQ struct{}

func (rootQ) Key() any                                 { return "root" }
func (rootQ) Execute(*incremental.Task) (int, error) { return 1, nil }

type otherQ struct{}

func (otherQ) Key() any                                 { return "other" }
func (otherQ) Execute(*incremental.Task) (int, error) { return 1, nil }

func TestCancelledRunDoesNotPoisonLaterRuns(t *testing.T) {
	exec := incremental.New(incremental.WithParallelism(4))
	leaf := &leafQ{started: make(chan struct{}), release: make(chan struct{})}
	mid := &midQ{leaf: leaf, other: otherQ{}}
	ctx, cancel := context.WithCancel(context.Background())
	done := make(chan error, 1)
	go func() {
		_, _, err := incremental.Run[int](ctx, exec, rootQ{}, mid)
		done <- err
	}()
	<-leaf.started
	cancel()
	if err := <-done; err == nil {
		t.Fatal("cancelled run returned no error")
	}
	close(leaf.release)
	// a later run with a live context
	leaf2 := &leafQ{}
	mid2 := &midQ{leaf: leaf2, other: otherQ{}}
	for i := 0; i < 50; i++ {
		res, _, err := incremental.Run[int](context.Background(), exec, mid2)
		if err != nil {
			t.Fatal(err)
		}
		if res[0].Fatal != nil {
			t.Fatalf("run %d after a cancelled run: query failed with %v", i, res[0].Fatal)
		}
		if res[0].Value != 8 {
			t.Fatalf("value %d", res[0].Value)
		}
	}
}
