"""Per-property configuration of the /verif checks (read by ./check)."""

COMPONENTS = {
    "intern": {
        "real": ["internal/intern.Table (Intern, InternBytes, Query, Value)", "internal/ext/syncx.Log (Append, Load)", "sync.Map, sync/atomic, Go runtime"],
        "stub": ["callers (workload goroutines)", "goroutine scheduler (seeded, serialising, invisible to the race detector; fair round-robin among goroutines that only spin)"],
    },
    "symbols": {
        "real": ["linker.Symbols (Import, Lookup, LookupExtension, AddExtension, AddExtensionDeclaration)", "reporter.Handler", "protodesc / linker results as imported descriptors", "sync.RWMutex, Go runtime"],
        "stub": ["callers (workload goroutines / operation histories)", "goroutine scheduler (seeded, serialising; invisible to the race detector in engine R)", "flat-map reference model"],
    },
    "experimental": {
        "real": ["experimental/incremental Executor/Task/Resolve/Run/Evict", "experimental/incremental/queries (File, AST, IR, Link, FDP, FDS)",
                 "experimental parser, ir lowering (ir.Session), fdp, report (Report, Canonicalize, Renderer)", "source.Openers and source.WKTs",
                 "golang.org/x/sync/semaphore", "Go runtime and sync"],
        "stub": ["the disk: source.Opener over an in-memory versioned file map (edits, additions, deletions, transient open errors)",
                 "goroutine scheduler (seeded, serialising)"],
    },
    "incremental": {
        "real": ["experimental/incremental Executor, Task, Resolve, Run, Evict (executor.go, task.go)", "golang.org/x/sync/semaphore",
                 "sync.Map, sync.RWMutex, context, Go runtime"],
        "stub": ["Query implementations (generated graph queries with counters, panics)", "versioned input store", "goroutine scheduler (seeded, serialising)",
                 "model of Executor.dirty (eviction is scheduled only when no Run is active; validated with TryLock probes)"],
    },
    "compile": {
        "real": ["protocompile.Compiler and executor (compiler.go)", "parser", "linker incl. linker.Symbols", "options",
                 "sourceinfo", "reporter.Handler", "golang.org/x/sync/semaphore", "context", "protobuf-go", "Go runtime and sync"],
        "stub": ["Resolver (in-memory map with fault plan)", "source readers (chunked/faulting)", "Reporter (recording / aborting)",
                 "context cancellation source (scheduler event)", "goroutine scheduler (seeded, serialising)"],
    },
}

_ASSUME_B = [
    "interleavings are explored at hook granularity (lock acquisitions, publications, blocking operations), not per instruction",
    "engine B serialises goroutines, so data races are invisible to it (only their logical consequences under serial interleavings)",
    "seeded sampling: a clean batch is evidence, not proof",
    "under the verif tag a select whose context is already done takes the context arm (a legal outcome of the real select)",
    "a goroutine is never parked with a sync.Mutex/RWMutex of the code under test held (hand-placed hooks by rule, inserted ones are left out of lock regions), with the exception of Executor.dirty, whose waiters the scheduler keeps away by probing the real lock; a goroutine that nevertheless waits for ever on such a lock is reported as blocked-on-lock-forever",
]

PROPS = {
    "C05": dict(
        level="exploration", components="compile", nondeterminism_is_violation=True,
        parts=[dict(test="TestC05", engine="B", quick_checks=1500, thorough_checks=20000),
               # the same test against the build with simulator-visible mutexes (DESIGN.md 2.2)
               dict(test="TestC05", engine="B", variant="vismutex", quick_checks=500, thorough_checks=8000)],
        thorough_timeout=7200,
        rule="a case = generated import DAG workload (2-8 files, messages/enums/extensions/custom options, optional injected defects) "
             "x 1-2 Compile calls (MaxParallelism in {1,2,3,4,16}, permuted/duplicated request order, nil or fresh Symbols) "
             "x scheduler tape/disabled-hook set/starved victim; distinct = distinct (workload, runs, trace hash); "
             "non-trivial = the unsimulated reference compile succeeds (so descriptor bytes are compared) and the workload has >1 file",
        assumptions=_ASSUME_B + ["oracle = unsimulated MaxParallelism=1 compile of the same inputs (run twice)",
                                 "the second part runs the same test against a build in which the mutexes of compiler.go and linker/symbols.go are simulator-visible (simhook.Mutex/RWMutex substituted through the overlay): goroutines are parked inside critical sections and lock waits are scheduler states there"],
    ),
    "C06": dict(
        level="exploration", components="compile",
        parts=[dict(test="TestC06", engine="B", quick_checks=5000, thorough_checks=40000),
               # the same test against a build in which the mutexes of compiler.go and
               # linker/symbols.go are simulator-visible (DESIGN.md 2.2)
               dict(test="TestC06", engine="B", variant="vismutex", quick_checks=2500, thorough_checks=20000)],
        thorough_timeout=7200,
        rule="a case = random import digraph on 1-6 files (self-imports, cycles of any length, diamonds, imports of missing files; "
             "files contain only imports and one empty message) x non-empty requested subset in random order x MaxParallelism 1-4 x "
             "default or never-aborting reporter x scheduler tape/disabled hooks/starved victim; distinct = distinct (graph, request, "
             "reporter, trace hash); non-trivial = the requested closure contains an import cycle",
        assumptions=_ASSUME_B + ["oracle = graph model (reachability + DFS cycle detection) computed by the harness",
                                 "a cycle report is only demanded when cycles are the only defect in the closure (Compile may return on a missing import before any cycle member runs its check)"],
    ),
    "C07": dict(
        level="fault_enumeration", components="compile",
        parts=[dict(test="TestC07", engine="B", quick_checks=2500, thorough_checks=30000),
               # the same test against the build with simulator-visible mutexes (DESIGN.md 2.2)
               dict(test="TestC07", engine="B", variant="vismutex", quick_checks=1000, thorough_checks=12000)],
        thorough_timeout=7200,
        rule="a case = valid generated workload (2-7 files) x request x MaxParallelism in {1,2,4} x fault plan of 0-3 faults over "
             "(file, resolver-call ordinal): resolver error / resolver panic / read error at byte k / read panic at byte k / benign "
             "delivery shapes (short reads, (0,nil) reads, (n,EOF), Close error) / context cancellation at decision k (incl. before "
             "start and after return) x scheduler tape; distinct = distinct (workload, plan, trace hash); non-trivial = at least one "
             "non-masked fault fired, or the cancellation was delivered, before Compile returned",
        assumptions=_ASSUME_B + ["the second part runs the same test against the build with simulator-visible mutexes (see C05)",
                                 "a panicking Close() is outside the property's fault model (resolver, accessor, reader failure, cancellation) and is not injected",
                                 "resolver errors for google/protobuf/* are masked by WithStandardImports and failures inside the descriptor.proto probe are ignored by design; both count as masked"],
    ),
    "C08": dict(
        level="exploration", components="compile",
        parts=[dict(test="TestC08", engine="B", quick_checks=1500, thorough_checks=30000),
               dict(test="TestC08R", engine="R", quick_checks=5000, thorough_checks=60000)],
        thorough_timeout=7200,
        rule="a case = generated multi-file workload carrying 0-12 independent reportable errors (unresolvable types, duplicate field "
             "numbers, bad defaults, symbol/extension collisions, cycles, syntax errors) and unused-import warnings x reporter policy "
             "(abort at its k-th error, k=1..8, or never) x MaxParallelism in {1,2,4} x scheduler tape; part R: 2-4 goroutines x 1-6 operations "
             "each from {HandleErrorf, HandleWarningf, HandleError(non-positional), Error, ReporterError} on one root Handler and per-"
             "goroutine SubHandlers, reporter aborting at its k-th error or never and touching plain unsynchronised memory, under the race "
             "detector with happens-before-transparent scheduling; distinct = distinct (workload or operations, policy, trace hash); "
             "non-trivial = at least one error reached the reporter",
        assumptions=_ASSUME_B + ["the reporter stub cannot park (the handler holds its mutex around the callback), so reporter calls are atomic steps in engine B",
                                 "'never called concurrently' is decided at Handler level (part R: an unsynchronised reporter must be race-free); a change in compiler.go that bypassed the shared root handler would only be seen through part B's latch/outcome oracles"],
    ),
    "C09": dict(
        level="exploration", components="compile",
        parts=[dict(test="TestC09", engine="B", quick_checks=500, thorough_checks=30000),
               dict(test="TestC09R", engine="R", quick_checks=150, thorough_checks=5000, nondeterministic_part=True)],
        thorough_timeout=7200,
        rule="a case = valid generated workload x per-file input form (source / AST / parser.Result / unlinked FileDescriptorProto) for "
             "one or two concurrent Compile clients sharing the same supplied objects x SourceInfoMode in {none, standard, extra "
             "comments, +option locations} x supplied protos with or without source code info x MaxParallelism x scheduler tape; distinct = distinct (workload, forms, trace hash); "
             "non-trivial = at least one file is supplied in a non-source form. Part TestC09R is NOT simulated: 2-3 real, unscheduled concurrent "
             "Compile calls (different SourceInfoModes) share the same supplied objects (protos carrying source info) under the race "
             "detector, whose happens-before analysis reports an unsynchronised write to a shared input however the goroutines interleave",
        assumptions=_ASSUME_B + ["the race-detector part controls no schedule; it is a supplementary oracle for 'can be reused across concurrent compilations' that engine B cannot observe",
                                 "source info is compared only for files whose supplied form carries an AST, except that with SourceInfoNone every form must come out without any",
                                 "a failing all-source reference compile of a workload meant to be valid is a violation (form-changes-outcome) if the same files compile as unlinked descriptor protos, a generator fault (exit 2) otherwise",
                                 "mutation of supplied objects is decided by before/after deterministic encodings (ASTs are not snapshotted)"],
    ),
    "C33": dict(
        test="TestC33", engine="B", level="exploration", components="incremental",
        quick_checks=10000, thorough_checks=60000, thorough_timeout=7200,
        rule="a case = random DAG on 2-7 integer-keyed queries (each resolves its dependencies in generated groups of sequential/parallel "
             "Resolve calls and hashes key, versioned input and dependency values) x 1-3 concurrent clients each issuing 1-4 operations "
             "from {Run(roots), Run(roots) whose context the scheduler cancels k decisions after it started (one case in three has such "
             "Runs), Evict(keys), EvictWithCleanup(keys, bump their inputs)} x parallelism 1-4 x scheduler tape/disabled "
             "hooks; distinct = distinct (graph, histories, trace hash); non-trivial = the history contains at least one Run and one eviction",
        assumptions=_ASSUME_B + ["inputs change only inside the exclusive cleanup of EvictWithCleanup, for exactly the evicted keys (the documented usage)",
                                 "an eviction reaches Executor.dirty.Lock only when no Run is active (a goroutine blocked on a mutex is invisible to synctest); TryLock probes inside Execute and cleanup check that the lock is really held",
                                 "a cancelled Run may itself fail with the cancellation error; every other Run must get the right values (a cancellation error in a live Run's results is a violation: what a query returns while its Run's context is done is not memoised)",
                                 "an eviction is not scheduled while goroutines that a (cancelled) Run left behind are still alive: they hold no lock, and what an eviction does to the tasks they lead is outside the property and the model"],
    ),
    "C34": dict(
        test="TestC34", engine="B", level="fault_enumeration", components="incremental",
        quick_checks=10000, thorough_checks=60000, thorough_timeout=7200,
        rule="a case = random digraph on 2-6 queries (cycles and self-loops allowed; queries propagate a dependency's fatal error) x "
             "set of 0-2 queries that panic once (faults then stop) x parallelism 1-4 x history (one client: Run(roots1) then "
             "Run(roots2 + everything that panicked); or two concurrent clients with one Run each) x scheduler tape/disabled hooks; "
             "distinct = distinct (graph, panics, history, trace hash); non-trivial = the graph has a cycle or a panic actually fired",
        assumptions=_ASSUME_B + ["a Run in which no query panicked and which returns no error is judged in full (cycle errors exactly on cyclic closures, right values otherwise) even when another query panicked earlier or in a concurrent Run"],
    ),
    "C35": dict(
        test="TestC35", engine="B", level="exploration", components="experimental", nondeterminism_is_violation=True,
        selftest_may_diverge="the outcome of cases whose workspace has an import cycle is itself nondeterministic in the code under test (known finding C36/diagnostics-differ-with-import-cycle), so such a case may stop after a different number of runs; the schedule of each individual run is reproducible",
        quick_checks=600, thorough_checks=6000, thorough_timeout=10800,
        rule="a case = generated workspace (2-6 proto files, optionally with defects) x workspace roots x edit history of 1-5 steps from "
             "{add a type, change a field type, rename a message, add an import (maybe unused/cyclic/missing), drop an import, break/"
             "repair syntax, add a file, delete a file, re-add a deleted file, toggle a transient open error, touch} each followed by "
             "evicting the changed paths' File queries and re-running queries.FDS on the long-lived executor (parallelism 1-4) under a "
             "seeded schedule; one case in four applies the edits inside EvictWithCleanup's cleanup while a second client compiles 1-4 times on the same executor (each result must be the batch result of a file state that existed while it ran; the editor may stall inside the cleanup); one case in five adds a 'hub' shape (a workspace file importing 2-3 files that are not in the workspace and extend the same message with numbers from a pool of two); "
             "seeded schedule; oracle = brand-new executor and ir.Session on the same files after each step; distinct = distinct "
             "(workspace, history, trace hash); non-trivial = more than one step or a step whose batch result has diagnostics",
        assumptions=_ASSUME_B + ["diagnostics are compared as a multiset of individually rendered diagnostics; an order-only difference is reported under its own class"],
    ),
    "C36": dict(
        test="TestC36", engine="B", level="exploration", components="experimental", nondeterminism_is_violation=True,
        selftest_may_diverge="the outcome of cases whose workspace has an import cycle is itself nondeterministic in the code under test (known finding C36/diagnostics-differ-with-import-cycle), so such a case may stop after a different number of runs; the schedule of each individual run is reproducible",
        quick_checks=400, thorough_checks=6000, thorough_timeout=10800,
        rule="a case = generated invalid workspace (0-12 reportable errors, warnings; one case in four with a 'hub' shape: a workspace file importing 2-3 import-only files whose extension numbers may clash) x 2-4 runs of queries.FDS on brand-new or warm "
             "executors with parallelism 1-4 under a seeded schedule, in one case of four with a second client that compiles the same workspace 1-3 times on the same executor at the same time and may evict (unchanged) files before each of its runs (each fresh executor has fresh sync.Map hash seeds), compared with "
             "an unsimulated run; plus Report.Canonicalize applied to 3 seeded permutations of (a) the real diagnostics and (b) a "
             "synthetic list of 0-7 diagnostics drawn from small pools (ties, tagged duplicates, span-less diagnostics); distinct = "
             "distinct (workspace, runs, synthetic list, trace hash); non-trivial = the reference report has at least 2 diagnostics",
        assumptions=_ASSUME_B + ["the synthetic-list part of the Canonicalize oracle is plain seeded input generation (no schedule in it); it is included because the property states it, not as simulation"],
    ),
    "C17": dict(
        test="TestC17", engine="B", level="exploration", components="symbols",
        quick_checks=8000, thorough_checks=150000, thorough_timeout=7200,
        rule="a case = 0-5 generated descriptor files (packages from a pool of 8, colliding message/enum-value names, 0-3 extensions of "
             "messages in three different packages with numbers from a pool of three, dependency chains; built with protodesc from generated "
             "FileDescriptorProtos, so a file may even collide with its own dependency; optionally also compiled to a linker result with source) "
             "+ history of 2-12 operations from {Import(file), Lookup(name), LookupExtension(message, number)} over them and a fixed pool of 19 "
             "small files x 2 representations (linker result with source, plain protodesc descriptor) that overlap in names, package-vs-"
             "symbol names and extension numbers on a shared extendee; after every Import the answers of Lookup/LookupExtension over the "
             "whole name universe and the success/failure of the import are compared with a flat-map model of the successfully imported "
             "files; distinct = distinct history; non-trivial = at least one import in the history failed",
        assumptions=["single goroutine: the quantifier is over histories, no schedule is involved (the concurrent side of the symbol table is C16)",
                     "the model enumerates a file's symbols with protocompile's own walk.Descriptors", "seeded sampling of histories, not exhaustive"],
    ),
    "C16": dict(
        level="exploration", components="symbols",
        parts=[dict(test="TestC16R", engine="R", quick_checks=4000, thorough_checks=60000),
               dict(test="TestC16B", engine="B", quick_checks=1000, thorough_checks=20000)],
        thorough_timeout=7200,
        rule="part R: a case = 2-4 worker goroutines x 1-5 operations each from {Import(file) via linker-result and protodesc paths, Lookup, "
             "LookupExtension, AddExtension, AddExtensionDeclaration} on one shared linker.Symbols over a pool of 15 colliding files x 2 "
             "representations, run under the race detector by a seeded serialising scheduler whose hand-offs create no happens-before "
             "edges (yield points before every lock acquisition of symbols.go); part B: a case = generated workload (optionally with a "
             "duplicate symbol / duplicate extension number / message-vs-package collision) partitioned into 2-3 compilations sharing one "
             "table, run sequentially (later ones get earlier results as descriptors) or as concurrent Compile clients under a seeded "
             "schedule, compared with one compilation of everything; distinct = distinct (operations or workload+partition, trace hash); "
             "non-trivial = (R) at least two imports by at least two workers, (B) the all-together compilation reports a collision",
        assumptions=_ASSUME_B + ["engine R: race reports are ThreadSanitizer's; a race between two accesses is only reported if no lock/atomic of the code under test orders them in the explored schedule",
                                 "a collision between two files counts as found when at least one import call of either file fails (which one is schedule-dependent)"],
    ),
    "C38": dict(
        test="TestC38", engine="R", level="exploration", components="intern",
        quick_checks=5000, thorough_checks=60000, thorough_timeout=7200,
        rule="a case = 2-4 worker goroutines x 2-8 operations each from {Intern, InternBytes followed by overwriting the caller's buffer, "
             "Query, Value(id obtained earlier)} over a per-case palette of 2-6 strings (inline-encodable and stored ones, incl. trailing "
             "'.', 6 characters, non-char6 characters), with yield points before every atomic step of internSlow, Query, Log.Append and "
             "Log.Load and inside all four spin loops, run under the race detector by the happens-before-transparent scheduler; the "
             "recorded invoke/return history is checked with porcupine against map[string]ID; distinct = distinct (operations, trace "
             "hash); non-trivial = at least two Intern operations on stored (non-inline) strings",
        assumptions=["engine R serialises goroutines at hook granularity; spin loops are scheduled fairly (round-robin once only spinners remain)",
                     "the injectivity of the inline encoding over its whole 64^5 domain is exhaustive enumeration of a pure function and is NOT decided here; inline strings are only sampled (round trip, sign of the id)",
                     "porcupine results 'Unknown' (timeout) are counted as inconclusive, never reported", "seeded sampling, not proof"],
    ),
}

_PURE = "pure function of its input (no schedule, clock, fault or interleaving can change the answer): not a deterministic-simulation target; see DESIGN.md section 4"
NOT_APPLICABLE = {
    "C01": _PURE + "; needs a protoc oracle that is not installed", "C02": _PURE + "; needs a protoc oracle that is not installed",
    "C03": _PURE + "; needs a protoc oracle that is not installed", "C04": _PURE, "C10": _PURE, "C11": _PURE, "C12": _PURE, "C13": _PURE,
    "C14": _PURE, "C15": _PURE, "C18": _PURE, "C19": _PURE, "C20": _PURE, "C21": _PURE, "C22": _PURE, "C23": _PURE, "C24": _PURE,
    "C25": _PURE, "C26": _PURE, "C27": _PURE, "C28": _PURE, "C29": _PURE, "C30": _PURE, "C31": _PURE, "C32": _PURE, "C37": _PURE,
    "C39": _PURE, "C40": _PURE + " (histories over a single-threaded structure are just inputs; nothing to inject)", "C41": _PURE,
}
_P = "simulation applies (DESIGN.md section 3) but the check is still under construction in this round; not claimed until it runs"
PENDING = {}

MANIFEST_TEXT = {
    "C38": dict(
        technique="deterministic simulation under the race detector (engine R) with a porcupine linearizability check of the recorded history against map[string]ID",
        design_ref="DESIGN.md 3.12",
        level_text="Seeded interleavings of concurrent Intern/Query/Value callers at every atomic step of the interning slow path "
                   "and of the append-only log (including its growth path and all spin loops); oracles: race detector, "
                   "linearizability of the invoke/return history against a sequential map model, agreement of all goroutines on ids, "
                   "distinct strings get distinct ids, Value/Query round trips. The exhaustive inline-encoding bijection is not claimed.",
        level_note="Trusted: engine R scheduler, ThreadSanitizer, porcupine, the documented inlining rule used by the model.",
    ),
    "C16": dict(
        technique="deterministic simulation under the race detector with happens-before-transparent scheduling (engine R) plus partitioned-compilation simulation (engine B)",
        design_ref="DESIGN.md 3.6",
        level_text="R: seeded interleavings of Import/Lookup/AddExtension callers at every lock acquisition of the symbol table, "
                   "executed serially but without the scheduler adding happens-before edges, so the race detector reports any pair "
                   "of accesses the table's own locks do not order; logical oracle: no lost symbols, no missed and no spurious "
                   "collisions. B: the same file set compiled together and split across compilations sharing the table must agree on "
                   "whether a collision is reported.",
        level_note="Trusted: both schedulers, ThreadSanitizer, the pairwise conflict model of the file pool.",
    ),
    "C17": dict(
        technique="seeded operation histories checked step by step against an executable reference model (flat map of committed files)",
        design_ref="DESIGN.md 3.7",
        level_text="Seeded histories of imports (some colliding on names, package names or extension numbers) and lookups on one "
                   "symbol table; after every step the table's observable answers over the whole name universe, and whether the import "
                   "succeeded, must equal a flat-map model in which a failed import changes nothing.",
        level_note="Trusted: the reference model and walk.Descriptors as the enumeration of a file's symbols. No concurrency in this check.",
    ),
    "C35": dict(
        technique="deterministic simulation: seeded edit histories over a simulated Opener (incl. transient open errors) x seeded schedules (engine B), brand-new executor as reference model",
        design_ref="DESIGN.md 3.10",
        level_text="Seeded exploration of edit/evict/recompile histories on one long-lived executor and ir.Session, each recompile "
                   "running under a seeded interleaving of the query goroutines; after every step the fatal-ness, the diagnostics and "
                   "the FileDescriptorSet bytes are compared with a brand-new executor on the current files.",
        level_note="Trusted: harness scheduler, the batch run as oracle, the simulated Opener.",
    ),
    "C36": dict(
        technique="deterministic simulation: repeated runs on fresh/warm executors under seeded schedules and parallelism (engine B); permutation/idempotence oracle for Canonicalize",
        design_ref="DESIGN.md 3.11",
        level_text="Seeded exploration of schedules x parallelism x fresh sync.Map hash seeds for the same invalid workspace; the "
                   "rendered report must be byte-identical (same diagnostics, same order) to an unsimulated run. Canonicalize is "
                   "checked for order-independence and idempotence on seeded permutations of real and synthetic diagnostic lists.",
        level_note="Trusted: harness scheduler, report.Renderer as the observation of a report.",
    ),
    "C34": dict(
        technique="deterministic simulation with fault injection: panicking queries and cyclic graphs x seeded schedules (engine B), bounded-step liveness, leak and permit accounting",
        design_ref="DESIGN.md 3.9",
        level_text="Seeded enumeration of (graph, panicking nodes, history) crossed with seeded interleavings of leader election, "
                   "waiting, semaphore hand-off and cancellation; oracles: every Run returns within a decision budget (deadlock and "
                   "livelock detected by the scheduler), cycle errors name a genuine closed dependency path and appear exactly on "
                   "cyclic closures, a panic yields ErrPanic carrying the thrown value and query, the panicking query is re-executed "
                   "by the next run, all permits are back after draining, no goroutine stays blocked.",
        level_note="Trusted: harness scheduler, synctest quiescence and leak detection, graph model. Sampling only.",
    ),
    "C33": dict(
        technique="deterministic simulation: seeded histories of concurrent Run/Evict clients x seeded schedules (engine B) against a pure recomputation model with execution counters",
        design_ref="DESIGN.md 3.8",
        level_text="Seeded exploration of interleavings of concurrent Run and Evict/EvictWithCleanup clients on the real executor "
                   "(hooks at leader election, done publication, semaphore hand-off, join, eviction lock); operation-by-operation "
                   "oracle: returned values equal a pure recomputation on the input snapshot, no query executes twice between "
                   "evictions, an evicted key and exactly its dependents are recomputed, Changed is true exactly for results computed by the observing run.",
        level_note="Trusted: harness scheduler, synctest quiescence, the recomputation model. The eviction lock is modelled (see assumptions).",
    ),
    "C08": dict(
        technique="deterministic simulation: reporter policies (abort at k / never) as injected faults x seeded schedules (engine B); Handler under the race detector with an unsynchronised reporter and a latch/sub-handler model (engine R)",
        design_ref="DESIGN.md 3.4",
        level_text="Seeded exploration of interleavings of tasks reporting errors through sub-handlers, crossed with reporter "
                   "abort policies; oracle: no error reaches the reporter after it aborted, Compile returns that very error, "
                   "accept-all with >=1 error gives ErrInvalidSource, warnings never fail, success implies zero reported errors.",
        level_note="Trusted: harness scheduler; the reporter stub. Mutual exclusion of reporter calls is not observable in engine B (serialised).",
    ),
    "C09": dict(
        technique="deterministic simulation: concurrent Compile clients sharing resolver-supplied objects under seeded schedules (engine B), all-source reference as oracle",
        design_ref="DESIGN.md 3.5",
        level_text="Seeded exploration over per-file input-form assignments and interleavings of two compilations that share the "
                   "same supplied ASTs, parse results and descriptor protos; oracle: descriptors equal the all-source reference "
                   "and every supplied object encodes byte-identically before and after.",
        level_note="Trusted: harness scheduler; reference compile. Races on shared objects are not visible to engine B; a missing defensive copy shows as a changed snapshot.",
    ),
    "C07": dict(
        technique="deterministic simulation with fault injection: seeded fault plans on the Resolver/io.Reader/context seams x seeded schedules (engine B; two builds: real and simulator-visible mutexes)",
        design_ref="DESIGN.md 3.3",
        level_text="Seeded enumeration of fault plans (which resolver call or which byte of which file fails or panics, when the "
                   "context is cancelled) crossed with seeded interleavings; oracles: the call returns within a decision budget, the "
                   "process survives, success implies the fault-free result, every error is attributable to an injected fault "
                   "(errors.Is / PanicError.Value identity / context.Canceled), no goroutine is left blocked after draining.",
        level_note="Trusted: harness scheduler, synctest quiescence and leak detection, fault stubs. Sampling of plans and schedules, not exhaustive.",
    ),
    "C06": dict(
        technique="deterministic simulation: seeded schedule search (engine B; two builds: real and simulator-visible mutexes) with a graph-model oracle and bounded-step liveness",
        design_ref="DESIGN.md 3.2",
        level_text="Seeded exploration of task interleavings around blocked-on publication, dependency creation, cycle checks and "
                   "semaphore release/re-acquire over random import digraphs; the oracle is a reachability/SCC model plus "
                   "deadlock, livelock (decision budget) and goroutine-leak detection by the scheduler itself.",
        level_note="Trusted: harness scheduler and synctest quiescence; cycle-path validation parses the error text. Sampling only.",
    ),
    "C05": dict(
        technique="deterministic simulation: seeded schedule search (engine B; two builds: real mutexes, and simulator-visible mutexes so that goroutines are also parked inside critical sections) against an unsimulated sequential reference compile",
        design_ref="DESIGN.md 3.1",
        level_text="Seeded exploration of goroutine interleavings (serialising scheduler over yield hooks at every lock acquisition, "
                   "publication and blocking operation of compiler.go and linker/symbols.go) x MaxParallelism x request permutations x "
                   "generated import graphs; every run's success/failure and descriptor bytes are compared with an unsimulated "
                   "MaxParallelism=1 compile. Sampling, not proof: the quantifier is over schedules, which only a scheduler that owns "
                   "every decision can vary and replay.",
        level_note="Trusted: the harness scheduler, testing/synctest quiescence detection, the reference compile as oracle. "
                   "Interleavings at hook granularity only; data races are not visible to this engine.",
    ),
}
