#!/bin/bash
# Build the framework from files on disk only (offline). Run in /verif.
set -e
cd "$(dirname "$0")"
. ./goenv.sh
cp /repo/go.sum harness/go.sum
mkdir -p .build .work replays evidence
cd harness
go vet -tags verif ./... 
go test -c -tags verif -o ../.build/props.test ./props/
# (the race binary proper is built by ./check with the autoyield overlay; this warms the build cache)
go build -o ../.build/autoyield ./cmd/autoyield
go test -c -race -tags verif -o ../.build/props.race.test ./props/
echo "setup ok: $(go version)"
