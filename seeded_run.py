#!/usr/bin/env python3
"""Runs the registered checks against the seeded changes kept under /verif/seeded.

usage: seeded_run.py [--tier quick|thorough] [--all-checks] [--scratch] [id ...]

For each seeded change: apply seeded/<id>/patch.diff to /repo's working tree, run
./check <property> (the property the change breaks; with --all-checks every
check), record exit status and violation classes, undo the change
(git -C /repo checkout -- .). Results go to seeded/results.json. /repo must be clean.
The evidence files of these runs go to .work/seeded-evidence, never to evidence/.

With --scratch the change is applied to a scratch worktree of /repo's HEAD
(/tmp/vseed/wt, or $VERIF_SCRATCH so that two sweeps do not share one; removed afterwards) and the checks are pointed at it with
VERIF_REPO, so /repo itself is not touched and can be used meanwhile.
"""
import json, os, re, subprocess, sys, time
V = os.path.dirname(os.path.abspath(__file__))
sys.path.insert(0, V)
from checks_config import PROPS

# which other checks exercise the same code (tried first when a property's own check misses a change)
RELATED = {
    "C05": ["C06", "C16", "C09", "C07", "C08"], "C06": ["C05", "C07"], "C07": ["C06", "C05", "C08"], "C08": ["C07", "C05"], "C09": ["C05"],
    "C16": ["C17", "C05"], "C17": ["C16", "C05"],
    "C33": ["C34", "C35", "C36"], "C34": ["C33", "C35", "C36"], "C35": ["C36", "C33", "C34"], "C36": ["C35", "C33", "C34"], "C38": ["C35", "C36"],
}

def sh(cmd, **kw):
    return subprocess.run(cmd, shell=True, stdout=subprocess.PIPE, stderr=subprocess.STDOUT, text=True, **kw)

def main():
    args = sys.argv[1:]
    tier = "quick"
    allchecks = False
    scratch = False
    ids = []
    i = 0
    while i < len(args):
        if args[i] == "--tier":
            i += 1
            tier = args[i]
        elif args[i] == "--all-checks":
            allchecks = True
        elif args[i] == "--scratch":
            scratch = True
        else:
            ids.append(args[i])
        i += 1
    ids = ids or sorted(d for d in os.listdir(os.path.join(V, "seeded")) if os.path.isdir(os.path.join(V, "seeded", d)))
    repo = "/repo"
    env = dict(os.environ, VERIF_EVIDENCE_DIR=os.path.join(V, ".work", "seeded-evidence"))
    if scratch:
        repo = os.environ.get("VERIF_SCRATCH") or "/tmp/vseed/wt"
        sh("git -C /repo worktree remove --force " + repo)
        os.makedirs("/tmp/vseed", exist_ok=True)
        a = sh("git -C /repo worktree add -q --detach %s HEAD" % repo)
        if a.returncode != 0:
            print("cannot create scratch worktree:", a.stdout)
            sys.exit(2)
        env["VERIF_REPO"] = repo
    elif sh("git -C /repo status --porcelain --untracked-files=no").stdout.strip():
        print("refusing: /repo has uncommitted changes")
        sys.exit(2)
    rpath = os.path.join(V, "seeded", "results.json")
    results = json.load(open(rpath)) if os.path.exists(rpath) else {}
    for mid in ids:
        prop = mid.split("-")[0]
        patch = os.path.join(V, "seeded", mid, "patch.diff")
        a = sh("git -C %s apply %s" % (repo, patch))
        if a.returncode != 0:
            print(mid, "patch does not apply:", a.stdout)
            results.setdefault(mid, {})["apply_error"] = a.stdout
            continue
        try:
            checks = sorted(PROPS) if allchecks else [prop]
            idx = 0
            while idx < len(checks):
                chk = checks[idx]
                idx += 1
                t0 = time.time()
                r = sh("./check %s %s" % (chk, tier), cwd=V, env=env)
                classes = sorted(set(re.findall(r"^violation class=(\S+)", r.stdout, re.M)))
                rec = {"exit": r.returncode, "classes": classes, "wall_s": round(time.time() - t0, 1), "tier": tier}
                if r.returncode == 2:
                    rec["trouble"] = re.findall(r"^CHECK-ERROR.*", r.stdout, re.M)[:3]
                results.setdefault(mid, {}).setdefault("checks", {})[chk] = rec
                print(mid, chk, rec, flush=True)
                if not allchecks and chk == prop and r.returncode == 0 and idx == len(checks):
                    # the property's own check misses it: does any other check see it?
                    near = RELATED.get(prop, [])
                    checks += near + [c for c in sorted(PROPS) if c != prop and c not in near]
                if chk != prop and r.returncode == 1:
                    break
        finally:
            sh("git -C %s checkout -- ." % repo)
        json.dump(results, open(rpath, "w"), indent=1, sort_keys=True)
    if scratch:
        sh("git -C /repo worktree remove --force " + repo)
    if sh("git -C /repo status --porcelain --untracked-files=no").stdout.strip():
        print("WARNING: /repo not clean after run")

if __name__ == "__main__":
    main()
