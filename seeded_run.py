#!/usr/bin/env python3
"""Runs the registered checks against the seeded changes kept under /verif/seeded.

usage: seeded_run.py [--tier quick|thorough] [--all-checks] [id ...]

For each seeded change: apply seeded/<id>/patch.diff to /repo's working tree, run
./check <property> (the property the change breaks; with --all-checks every
check), record exit status and violation classes, undo the change
(git -C /repo checkout -- .). Results go to seeded/results.json. /repo must be clean.
"""
import json, os, re, subprocess, sys, time
V = os.path.dirname(os.path.abspath(__file__))
sys.path.insert(0, V)
from checks_config import PROPS

def sh(cmd, **kw):
    return subprocess.run(cmd, shell=True, stdout=subprocess.PIPE, stderr=subprocess.STDOUT, text=True, **kw)

def main():
    args = sys.argv[1:]
    tier = "quick"
    allchecks = False
    ids = []
    i = 0
    while i < len(args):
        if args[i] == "--tier":
            i += 1
            tier = args[i]
        elif args[i] == "--all-checks":
            allchecks = True
        else:
            ids.append(args[i])
        i += 1
    ids = ids or sorted(d for d in os.listdir(os.path.join(V, "seeded")) if os.path.isdir(os.path.join(V, "seeded", d)))
    if sh("git -C /repo status --porcelain --untracked-files=no").stdout.strip():
        print("refusing: /repo has uncommitted changes")
        sys.exit(2)
    rpath = os.path.join(V, "seeded", "results.json")
    results = json.load(open(rpath)) if os.path.exists(rpath) else {}
    for mid in ids:
        prop = mid.split("-")[0]
        patch = os.path.join(V, "seeded", mid, "patch.diff")
        a = sh("git -C /repo apply " + patch)
        if a.returncode != 0:
            print(mid, "patch does not apply:", a.stdout)
            results.setdefault(mid, {})["apply_error"] = a.stdout
            continue
        try:
            checks = sorted(PROPS) if allchecks else [prop]
            idx = 0
            while idx < len(checks):
                chk = checks[idx]
                idx += 1
                t0 = time.time()
                r = sh("./check %s %s" % (chk, tier), cwd=V)
                classes = sorted(set(re.findall(r"^violation class=(\S+)", r.stdout, re.M)))
                rec = {"exit": r.returncode, "classes": classes, "wall_s": round(time.time() - t0, 1), "tier": tier}
                if r.returncode == 2:
                    rec["trouble"] = re.findall(r"^CHECK-ERROR.*", r.stdout, re.M)[:3]
                results.setdefault(mid, {}).setdefault("checks", {})[chk] = rec
                print(mid, chk, rec, flush=True)
                if not allchecks and chk == prop and r.returncode == 0 and idx == len(checks):
                    # the property's own check misses it: does any other check see it?
                    checks += [c for c in sorted(PROPS) if c != prop]
                if chk != prop and r.returncode == 1:
                    break
        finally:
            sh("git -C /repo checkout -- .")
        json.dump(results, open(rpath, "w"), indent=1, sort_keys=True)
    if sh("git -C /repo status --porcelain --untracked-files=no").stdout.strip():
        print("WARNING: /repo not clean after run")

if __name__ == "__main__":
    main()
