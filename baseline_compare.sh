#!/bin/bash
# Runs the repository's suite with the verif guard OFF and checks it against the
# pinned baseline: every test in BASELINE.json's stable_pass list must pass.
cd "$(dirname "$0")"
./baseline_off.sh 2>/dev/null | python3 -c "
import sys,json
res={}
for l in sys.stdin:
    try: e=json.loads(l)
    except Exception: continue
    if e.get('Action') in ('pass','fail') and e.get('Test'):
        res[e['Package']+'::'+e['Test']]=e['Action']
b=json.load(open('/root/.vp/BASELINE.json'))
bad=[t for t in b['stable_pass'] if res.get(t)!='pass']
print('stable_pass tests: %d, passing now: %d' % (len(b['stable_pass']), len(b['stable_pass'])-len(bad)))
for t in bad[:20]: print('NOT PASSING:', t, res.get(t))
sys.exit(1 if bad else 0)
"
