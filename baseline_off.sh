#!/bin/bash
# Runs the repository's own test suite with the verif guard OFF (no build tag),
# the way the pinned baseline command does (module "." of /repo), printing
# go test -json on stdout.
cd /repo || exit 2
GT=/root/go/pkg/mod/golang.org/toolchain@v0.0.1-go1.25.6.linux-amd64
[ -x "$GT/bin/go" ] || GT=/opt/veriftools/go1.26.8
export GOROOT="$GT" PATH="$GT/bin:$PATH" GOTOOLCHAIN=local GOPROXY=off GOSUMDB=off GOFLAGS=
exec go test -json -vet=off -count=1 -timeout 25m ./...
