#!/usr/bin/env python3
"""Regenerates MANIFEST.json from checks_config.py (single source of truth)."""
import json, os, subprocess, sys
sys.path.insert(0, os.path.dirname(os.path.abspath(__file__)))
from checks_config import PROPS, NOT_APPLICABLE, PENDING, MANIFEST_TEXT

props = [json.loads(l) for l in open(os.path.join(os.path.dirname(__file__), "properties.jsonl"))]
ids = [p["id"] for p in props]
hook_commits = subprocess.run(["git", "-C", "/repo", "log", "--format=%H %s", "--grep=^verif hooks:"],
                              stdout=subprocess.PIPE, text=True).stdout.strip().splitlines()
def engines(c):
    es = sorted(set(p.get("engine", c.get("engine")) for p in (c.get("parts") or [c])))
    return "+".join(es)


checks, na = [], []
for pid in ids:
    if pid in PROPS:
        c = PROPS[pid]
        t = MANIFEST_TEXT[pid]
        checks.append({
            "property_id": pid,
            "quick_cmd": "./check %s quick" % pid,
            "thorough_cmd": "./check %s thorough" % pid,
            "evidence_file": "/verif/evidence/%s.json" % pid,
            "replay_cmd_template": "./check %s --replay {path}" % pid,
            "engine": {"B": "bubble", "R": "hbfree", "B+R": "bubble+hbfree"}[engines(c)],
            "level_claimed": {"category": c["level"], "text": t["level_text"], "design_ref": t["design_ref"]},
            "level_note": t["level_note"],
            "technique": t["technique"],
        })
    elif pid in PENDING:
        na.append({"property_id": pid, "reason": PENDING[pid]})
    else:
        na.append({"property_id": pid, "reason": NOT_APPLICABLE[pid]})
manifest = {
    "version": 1,
    "setup_cmd": "./setup.sh",
    "hooks": {
        "guard": "verif",
        "enable": "go build tag: the harness test binaries are built with `go test -c -tags verif` (plus -race for engine R) "
                  "through /verif/harness/go.mod, which replaces github.com/bufbuild/protocompile with /repo",
        "baseline_off_cmd": "./baseline_off.sh",
        "source_commits": [l.split()[0] for l in reversed(hook_commits)],
        "add_only": True,
    },
    "engines": [
        {"name": "bubble", "path": "/verif/harness/sim/bubble.go",
         "serves_properties": [p for p in ids if p in PROPS and "B" in engines(PROPS[p])],
         "kind_free_text": "deterministic simulation: seeded serialising goroutine scheduler inside testing/synctest over build-tagged yield hooks; fault injection through Resolver/Reader/Reporter/Context/Opener/Query seams; rapid generates and shrinks workload+fault plan+schedule tape"},
        {"name": "hbfree", "path": "/verif/harness/sim/hbfree.go",
         "serves_properties": [p for p in ids if p in PROPS and "R" in engines(PROPS[p])],
         "kind_free_text": "deterministic simulation under the Go race detector: seeded serialising scheduler whose hand-offs are invisible to TSan (plain words in go:norace functions), so unsynchronised accesses are reported even in serial schedules; porcupine linearizability check of recorded histories"},
    ],
    "checks": checks,
    "not_applicable": na,
    "notes": "One orchestrator (./check) drives every property; see DESIGN.md. Known findings: /verif/known_findings.json.",
}
with open(os.path.join(os.path.dirname(__file__), "MANIFEST.json"), "w") as f:
    json.dump(manifest, f, indent=1)
print("MANIFEST.json: %d checks, %d not_applicable" % (len(checks), len(na)))
