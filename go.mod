module t1
go 1.25.6
require github.com/bufbuild/protocompile v0.0.0
replace github.com/bufbuild/protocompile => /repo
